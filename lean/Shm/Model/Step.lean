/-
  The executable model of the PKCS#11 entry points: `step : State → Call → State × Resp`.
  Every branch follows the order of checks in src/lib/SoftHSM.cpp (function named in each section).
  Values the library chooses at random, or that come from code that is not (yet) modelled, enter as
  *oracle* arguments of the call (filled by the driver from what the library actually answered); the
  theorems quantify over all oracle values.
-/
import Shm.Model.Handles
import Shm.Model.Objects
import Shm.Gen.Access
namespace Shm

/-- one observed slot of `C_GetSlotList` + `C_GetTokenInfo` -/
structure SlotObs where
  id : Nat
  init : Bool
  label : Bytes
  serial : Bytes
  flags : Nat
  deriving DecidableEq, Repr, Inhabited

inductive Call
  | initLib
  | finiLib
  | slots                                           -- C_GetSlotList(FALSE, NULL) + list + token infos
  | initToken (slot : Nat) (pin : Option Bytes) (label : Bytes) (oSerial : Bytes)
  | openSession (slot : Nat) (flags : Nat)
  | closeSession (h : Nat)
  | closeAll (slot : Nat)
  | sessInfo (h : Nat)
  | login (h : Nat) (utype : Nat) (pin : Option Bytes)
  | logout (h : Nat)
  | initPin (h : Nat) (pin : Option Bytes)
  | setPin (h : Nat) (old new : Option Bytes)
  | create (h : Nat) (tpl : Template) (oEngine : RV)      -- oEngine: consulted only for a non-empty CKA_CHECK_VALUE
  | destroy (h : Nat) (o : Nat)
  | objProbe (h : Nat) (o : Nat)                           -- C_GetAttributeValue(CKA_CLASS), 8-byte buffer
  | getAttr (h : Nat) (o : Nat) (req : List (Nat × Option Nat)) (oVals : List (Nat × Option Bytes))  -- (type, buffer size | NULL); observed (len, bytes)
  | setAttr (h : Nat) (o : Nat) (tpl : Template) (oEngine : RV)
  | copy (h : Nat) (o : Nat) (tpl : Template) (oEngine : RV)
  | objSize (h : Nat) (o : Nat)
  | findInit (h : Nat) (tpl : Template) (oMinted : List (Nat × Bytes))
  | find (h : Nat) (max : Nat)
  | findFinal (h : Nat)
  deriving Repr, Inhabited

/-! ### helpers -/

def pinLenOk (p : Bytes) : Bool := 4 ≤ p.length && p.length ≤ 255

/-- `SlotManager` constructor: slot id from the serial number: `strtoul(last 8 chars, 16) & 0x7FFFFFFF` -/
def strtoulHex : List Char → Nat → Nat
  | [], acc => acc
  | c :: cs, acc => match hexDigitVal c with
      | some d => strtoulHex cs (acc * 16 + d)
      | none => acc

def slotIdOfSerial (serial : Bytes) : Nat :=
  let cs := serial.map fun b => Char.ofNat b.toNat
  let last8 := if cs.length < 8 then cs else cs.drop (cs.length - 8)
  (strtoulHex last8 0) % 2^31

/-- number of tokens in the object store -/
def tokenCount (ss : List Slot) : Nat := (ss.filter (·.tok.isSome)).length

/-- `SlotManager::getSlotList` with `pSlotList == NULL`: add a fresh free slot when none is left -/
def ensureFreeSlot (ss : List Slot) : List Slot :=
  if ss.any (·.tok.isNone) then ss
  else
    let id := tokenCount ss
    if ss.any (·.id == id) then ss else ss ++ [{ id := id, tok := none }]

def insertSorted (s : Slot) : List Slot → List Slot
  | [] => [s]
  | x :: xs => if s.id < x.id then s :: x :: xs else x :: insertSorted s xs

def sortSlots (ss : List Slot) : List Slot := ss.foldr insertSorted []

/-- order of `C_GetSlotList`: initialised tokens ascending by id, then the uninitialised ones (from the end) -/
def slotListing (ss : List Slot) : List Slot :=
  let sorted := sortSlots ss
  sorted.filter (·.tok.isSome) ++ (sorted.filter (·.tok.isNone)).reverse

/-- `extractObjectInformation`: the last well-sized entry wins -/
def tplULong (tpl : Template) (ty : Nat) : Option Nat :=
  match tpl.reverse.find? fun e => e.ty == ty && e.len == 8 && e.val.isSome with
  | some e => some (leToNat ((e.val.getD []).take 8))
  | none => none

def tplBool (tpl : Template) (ty : Nat) : Option Bool :=
  match tpl.reverse.find? fun e => e.ty == ty && e.len == 1 && e.val.isSome with
  | some e => some ((e.val.getD []).headD 0 != 0)
  | none => none

structure ObjInfo where
  cls : Nat
  keyType : Nat
  certType : Nat
  onToken : Bool
  isPriv : Bool
  deriving Repr, DecidableEq

/-- `extractObjectInformation` (explicit creation: `bImplicit = false`) -/
def extractObjectInformation (tpl : Template) : Except RV ObjInfo :=
  match tplULong tpl CKA.CLASS with
  | none => .error CKR.TEMPLATE_INCOMPLETE
  | some cls =>
    let kt := tplULong tpl CKA.KEY_TYPE
    let ct := tplULong tpl CKA.CERTIFICATE_TYPE
    let tok := (tplBool tpl CKA.TOKEN).getD false
    let pr := tplBool tpl CKA.PRIVATE
    if (cls == CKO.PUBLIC_KEY || cls == CKO.PRIVATE_KEY || cls == CKO.SECRET_KEY) && kt.isNone then
      .error CKR.TEMPLATE_INCOMPLETE
    else if cls == CKO.CERTIFICATE && ct.isNone then .error CKR.TEMPLATE_INCOMPLETE
    else
      let dfltPriv := if cls == CKO.CERTIFICATE || cls == CKO.PUBLIC_KEY then false else true
      .ok { cls := cls, keyType := kt.getD 0, certType := ct.getD 0, onToken := tok, isPriv := pr.getD dfltPriv }

def Obj.label (o : Obj) : Bytes :=
  match getA o.attrs CKA.LABEL with
  | some (.bytes v _) => v
  | _ => []

/-- is the object behind handle entry `e` still alive? -/
def objAlive (os : List Obj) (oid : Nat) : Bool := os.any (·.oid == oid)

def getObj (os : List Obj) (oid : Nat) : Option Obj := os.find? (·.oid == oid)

/-- API-level resolution of an object handle: present in the table *and* the object is still valid -/
def resolveObj (s : State) (h : Nat) : Option (ObjH × Obj) :=
  match s.handles.getObjH h with
  | none => none
  | some e => (getObj s.objs e.oid).map fun o => (e, o)

def sessTok (s : State) (h : Nat) : Option (Sess × Tok) :=
  match s.handles.getSess h with
  | none => none
  | some ss => (findTok s.slots ss.slot).map fun t => (ss, t)

def insertAsc (x : Nat) : List Nat → List Nat
  | [] => [x]
  | y :: ys => if x < y then x :: y :: ys else if x == y then y :: ys else y :: insertAsc x ys

def sortAsc (l : List Nat) : List Nat := l.foldr insertAsc []

/-! ### the step function -/

def rOnly (s : State) (rv : RV) : State × Resp := (s, { rv := rv })

def stepInitialize (s : State) : State × Resp :=
  if s.initialised then rOnly s CKR.CRYPTOKI_ALREADY_INITIALIZED
  else
    -- SlotManager constructor: tokens at the slot derived from their serial, one free slot at `tokenCount`
    let toks := s.slots.filterMap fun sl => sl.tok.map fun t =>
      ({ id := slotIdOfSerial t.serial, tok := some { t with soIn := false, userIn := false } } : Slot)
    let free : Slot := { id := toks.length, tok := none }
    let slots := if toks.any (·.id == free.id) then toks else toks ++ [free]
    ({ s with initialised := true, slots := slots, handles := [], counter := 0,
              objs := s.objs.filter (·.onToken) |>.map fun o =>
                -- token objects follow their token to its new slot id
                match (s.slots.find? (·.id == o.slot)).bind (·.tok) with
                | some t => { o with slot := slotIdOfSerial t.serial }
                | none => o },
     { rv := CKR.OK })

def stepFinalize (s : State) : State × Resp :=
  if !s.initialised then rOnly s CKR.CRYPTOKI_NOT_INITIALIZED
  else ({ s with initialised := false, handles := [], counter := 0,
                 objs := s.objs.filter (·.onToken),
                 slots := s.slots.map fun sl => { sl with tok := sl.tok.map Tok.logout } },
        { rv := CKR.OK })

def slotObsOf (sl : Slot) : List Nat × List (Option Bytes) :=
  match sl.tok with
  | some t => ([sl.id, 1, t.flags], [some t.label, some t.serial])
  | none => ([sl.id, 0, uninitFlags], [none, none])

def stepSlots (s : State) : State × Resp :=
  let slots := ensureFreeSlot s.slots
  let l := slotListing slots
  ({ s with slots := slots },
   { rv := CKR.OK, nums := l.length :: l.flatMap (fun sl => (slotObsOf sl).1),
     vals := l.flatMap (fun sl => (slotObsOf sl).2) })

def stepInitToken (s : State) (slot : Nat) (pin : Option Bytes) (label oSerial : Bytes) : State × Resp :=
  match findSlot s.slots slot with
  | none => rOnly s CKR.SLOT_ID_INVALID
  | some sl =>
    if s.handles.haveSession slot then rOnly s CKR.SESSION_EXISTS else
    match pin with
    | none => rOnly s CKR.ARGUMENTS_BAD
    | some p =>
      if !pinLenOk p then rOnly s CKR.PIN_INCORRECT else
      match sl.tok with
      | some t =>
        -- re-initialisation: SO PIN check, then reset (objects and user PIN removed, label replaced)
        if p != t.soPin then (({ s with slots := setTok s.slots slot { t with soLow := true } }), { rv := CKR.PIN_INCORRECT })
        else
          ({ s with slots := setTok s.slots slot
                      { t with label := label, userPin := none, soLow := false, userLow := false,
                               soIn := false, userIn := false },
                    objs := s.objs.filter fun o => !(o.onToken && o.slot == slot) },
           { rv := CKR.OK, vals := [some t.serial] })
      | none =>
        ({ s with slots := setTok s.slots slot
                    { label := label, serial := oSerial, soPin := p, userPin := none } },
         { rv := CKR.OK, vals := [some oSerial] })

def CKF_SERIAL : Nat := 4
def CKF_RW : Nat := 2

def stepOpenSession (s : State) (slot flags : Nat) : State × Resp :=
  match findSlot s.slots slot with
  | none => rOnly s CKR.SLOT_ID_INVALID
  | some sl =>
    if (flags / CKF_SERIAL) % 2 == 0 then rOnly s CKR.SESSION_PARALLEL_NOT_SUPPORTED else
    match sl.tok with
    | none => rOnly s CKR.TOKEN_NOT_RECOGNIZED
    | some t =>
      let rw := (flags / CKF_RW) % 2 == 1
      if !rw && t.soIn then rOnly s CKR.SESSION_READ_WRITE_SO_EXISTS else
      let h := s.counter + 1
      ({ s with counter := h, handles := s.handles ++ [(h, .sess { slot := slot, rw := rw })] },
       { rv := CKR.OK, nums := [h] })

/-- log the token of `slot` out -/
def logoutSlot (ss : List Slot) (slot : Nat) : List Slot :=
  ss.map fun sl => if sl.id == slot then { sl with tok := sl.tok.map Tok.logout } else sl

def stepCloseSession (s : State) (h : Nat) : State × Resp :=
  match s.handles.getSess h with
  | none => rOnly s CKR.SESSION_HANDLE_INVALID
  | some ss =>
    let handles := s.handles.sessionClosed h
    let objs := objsSessionClosed s.objs h
    -- SessionManager::closeSession logs out when this was the last session of the slot
    let last := !(s.handles.eraseIf fun k _ => k == h).haveSession ss.slot
    ({ s with handles := handles, objs := objs,
              slots := if last then logoutSlot s.slots ss.slot else s.slots },
     { rv := CKR.OK })

def stepCloseAll (s : State) (slot : Nat) : State × Resp :=
  match findSlot s.slots slot with
  | none => rOnly s CKR.SLOT_ID_INVALID
  | some _ =>
    ({ s with handles := s.handles.allSessionsClosed slot,
              objs := objsAllSessionsClosed s.objs slot,
              slots := logoutSlot s.slots slot },
     { rv := CKR.OK })

def stepSessInfo (s : State) (h : Nat) : State × Resp :=
  match s.handles.getSess h with
  | none => rOnly s CKR.SESSION_HANDLE_INVALID
  | some ss =>
    match findTok s.slots ss.slot with
    | none => rOnly s CKR.GENERAL_ERROR   -- unreachable: sessions exist only on initialised tokens
    | some t =>
      (s, { rv := CKR.OK, nums := [ss.slot, (stateOf t ss.rw).toNat, CKF_SERIAL + (if ss.rw then CKF_RW else 0)] })

def stepLogin (s : State) (h utype : Nat) (pin : Option Bytes) : State × Resp :=
  match s.handles.getSess h with
  | none => rOnly s CKR.SESSION_HANDLE_INVALID
  | some ss =>
    match pin with
    | none => rOnly s CKR.ARGUMENTS_BAD
    | some p =>
      match findTok s.slots ss.slot with
      | none => rOnly s CKR.GENERAL_ERROR
      | some t =>
        match utype with
        | 0 =>                     -- CKU_SO
          if s.handles.haveROSession ss.slot then rOnly s CKR.SESSION_READ_ONLY_EXISTS
          else if t.userIn then rOnly s CKR.USER_ANOTHER_ALREADY_LOGGED_IN
          else if t.soIn then rOnly s CKR.USER_ALREADY_LOGGED_IN
          else if p != t.soPin then
            ({ s with slots := setTok s.slots ss.slot { t with soLow := true } }, { rv := CKR.PIN_INCORRECT })
          else
            ({ s with slots := setTok s.slots ss.slot { t with soLow := false, soIn := true } }, { rv := CKR.OK })
        | 1 =>                     -- CKU_USER
          if t.soIn then rOnly s CKR.USER_ANOTHER_ALREADY_LOGGED_IN
          else if t.userIn then rOnly s CKR.USER_ALREADY_LOGGED_IN
          else match t.userPin with
            | none => rOnly s CKR.USER_PIN_NOT_INITIALIZED
            | some up =>
              if p != up then
                ({ s with slots := setTok s.slots ss.slot { t with userLow := true } }, { rv := CKR.PIN_INCORRECT })
              else
                ({ s with slots := setTok s.slots ss.slot { t with userLow := false, userIn := true } }, { rv := CKR.OK })
        | 2 =>                     -- CKU_CONTEXT_SPECIFIC: only when an operation on a CKA_ALWAYS_AUTHENTICATE key asked for it
          if !ss.opd.reauth then rOnly s CKR.OPERATION_NOT_INITIALIZED
          else if t.soIn then       -- Token::reAuthenticate
            (if p != t.soPin then ({ s with slots := setTok s.slots ss.slot { t with soLow := true } }, { rv := CKR.PIN_INCORRECT })
             else ({ s with slots := setTok s.slots ss.slot { t with soLow := false },
                            handles := s.handles.setSess h { ss with opd := { ss.opd with reauth := false } } }, { rv := CKR.OK }))
          else if t.userIn then
            (if some p != t.userPin then ({ s with slots := setTok s.slots ss.slot { t with userLow := true } }, { rv := CKR.PIN_INCORRECT })
             else ({ s with slots := setTok s.slots ss.slot { t with userLow := false },
                            handles := s.handles.setSess h { ss with opd := { ss.opd with reauth := false } } }, { rv := CKR.OK }))
          else rOnly s CKR.OPERATION_NOT_INITIALIZED
        | _ => rOnly s CKR.USER_TYPE_INVALID

def stepLogout (s : State) (h : Nat) : State × Resp :=
  match s.handles.getSess h with
  | none => rOnly s CKR.SESSION_HANDLE_INVALID
  | some ss =>
    match findTok s.slots ss.slot with
    | none => rOnly s CKR.GENERAL_ERROR
    | some _ =>
      ({ s with slots := logoutSlot s.slots ss.slot,
                handles := s.handles.tokenLoggedOut ss.slot,
                objs := objsTokenLoggedOut s.objs ss.slot },
       { rv := CKR.OK })

def stepInitPin (s : State) (h : Nat) (pin : Option Bytes) : State × Resp :=
  match s.handles.getSess h with
  | none => rOnly s CKR.SESSION_HANDLE_INVALID
  | some ss =>
    match findTok s.slots ss.slot with
    | none => rOnly s CKR.GENERAL_ERROR
    | some t =>
      if stateOf t ss.rw != .rwSO then rOnly s CKR.USER_NOT_LOGGED_IN else
      match pin with
      | none => rOnly s CKR.ARGUMENTS_BAD
      | some p =>
        if !pinLenOk p then rOnly s CKR.PIN_LEN_RANGE
        else ({ s with slots := setTok s.slots ss.slot { t with userPin := some p, userLow := false } }, { rv := CKR.OK })

def stepSetPin (s : State) (h : Nat) (old new : Option Bytes) : State × Resp :=
  match s.handles.getSess h with
  | none => rOnly s CKR.SESSION_HANDLE_INVALID
  | some ss =>
    match old, new with
    | none, _ => rOnly s CKR.ARGUMENTS_BAD
    | _, none => rOnly s CKR.ARGUMENTS_BAD
    | some o, some n =>
      if !pinLenOk n then rOnly s CKR.PIN_LEN_RANGE else
      match findTok s.slots ss.slot with
      | none => rOnly s CKR.GENERAL_ERROR
      | some t =>
        match stateOf t ss.rw with
        | .rwPublic | .rwUser =>
          -- Token::setUserPIN: verified against the stored blob on a scratch manager
          if t.userPin != some o then
            ({ s with slots := setTok s.slots ss.slot { t with userLow := true } }, { rv := CKR.PIN_INCORRECT })
          else
            ({ s with slots := setTok s.slots ss.slot { t with userPin := some n, userLow := false } }, { rv := CKR.OK })
        | .rwSO =>
          if t.soPin != o then
            ({ s with slots := setTok s.slots ss.slot { t with soLow := true } }, { rv := CKR.PIN_INCORRECT })
          else
            ({ s with slots := setTok s.slots ss.slot { t with soPin := n, soLow := false } }, { rv := CKR.OK })
        | _ => rOnly s CKR.SESSION_READ_ONLY

/-- CKA_CHECK_VALUE entries are moved to the end (`CreateObject`) -/
def reorderTpl (tpl : Template) : Template :=
  tpl.filter (·.ty != CKA.CHECK_VALUE) ++ tpl.filter (·.ty == CKA.CHECK_VALUE)

/-- attributes `CreateObject` forces after `saveTemplate` on OBJECT_OP_CREATE -/
def postCreate (cls : Nat) (o : Attrs) : Attrs :=
  if cls == CKO.PUBLIC_KEY then setA o CKA.LOCAL (.bool false)
  else if cls == CKO.SECRET_KEY || cls == CKO.PRIVATE_KEY then
    setA (setA (setA o CKA.LOCAL (.bool false)) CKA.ALWAYS_SENSITIVE (.bool false)) CKA.NEVER_EXTRACTABLE (.bool false)
  else o

/-- register a new object with a fresh handle (`addTokenObject` / `addSessionObject`) -/
def addObject (s : State) (slot h : Nat) (onToken isPriv : Bool) (attrs : Attrs) : State × Nat :=
  let oid := s.nextOid
  let hO := s.counter + 1
  let owner := if onToken then 0 else h
  ({ s with nextOid := oid + 1, counter := hO,
            objs := s.objs ++ [{ oid := oid, slot := slot, onToken := onToken, owner := owner, isPriv := isPriv, attrs := attrs }],
            handles := s.handles ++ [(hO, .obj { slot := slot, owner := owner, isPriv := isPriv, oid := oid })] }, hO)

def stepCreate (s : State) (h : Nat) (tpl : Template) (oEngine : RV) : State × Resp :=
  match sessTok s h with
  | none => if (s.handles.getSess h).isNone then rOnly s CKR.SESSION_HANDLE_INVALID else rOnly s CKR.GENERAL_ERROR
  | some (ss, t) =>
    match extractObjectInformation tpl with
    | .error rv => rOnly s rv
    | .ok info =>
      let acc := Gen.haveWrite (stateOf t ss.rw) info.onToken info.isPriv
      if acc != CKR.OK then rOnly s acc
      else if tpl.length > 32 then rOnly s CKR.TEMPLATE_INCONSISTENT
      else match findClass info.cls info.keyType info.certType with
        | none => rOnly s CKR.ATTRIBUTE_VALUE_INVALID
        | some cd =>
          match saveTemplate cd (initAttrs cd) (reorderTpl tpl) OP.CREATE info.isPriv t.soIn oEngine with
          | .error rv => rOnly s rv          -- rejected template: no effect
          | .ok attrs =>
            let r := addObject s ss.slot h info.onToken info.isPriv (postCreate info.cls attrs)
            (r.1, { rv := CKR.OK, nums := [r.2] })

def stepDestroy (s : State) (h o : Nat) : State × Resp :=
  match sessTok s h with
  | none => if (s.handles.getSess h).isNone then rOnly s CKR.SESSION_HANDLE_INVALID else rOnly s CKR.GENERAL_ERROR
  | some (ss, t) =>
    match resolveObj s o with
    | none => rOnly s CKR.OBJECT_HANDLE_INVALID
    | some (_, ob) =>
      let acc := Gen.haveWrite (stateOf t ss.rw) ob.onToken ob.isPriv
      if acc != CKR.OK then rOnly s acc
      else if !getBoolD ob.attrs CKA.DESTROYABLE true then rOnly s CKR.ACTION_PROHIBITED
      else
        ({ s with handles := s.handles.destroyObject o, objs := s.objs.filter (·.oid != ob.oid) }, { rv := CKR.OK })

/-- `C_GetAttributeValue(h, o, {CKA_CLASS, buf[8]})` — used as the side-effect-free validity probe -/
def stepObjProbe (s : State) (h o : Nat) : State × Resp :=
  match sessTok s h with
  | none => if (s.handles.getSess h).isNone then rOnly s CKR.SESSION_HANDLE_INVALID else rOnly s CKR.GENERAL_ERROR
  | some (ss, t) =>
    match resolveObj s o with
    | none => rOnly s CKR.OBJECT_HANDLE_INVALID
    | some (_, ob) =>
      let acc := Gen.haveRead (stateOf t ss.rw) ob.onToken ob.isPriv
      if acc != CKR.OK then rOnly s CKR.GENERAL_ERROR      -- C_GetAttributeValue maps the refusal to GENERAL_ERROR
      else rOnly s CKR.OK

/-- one template entry against one object (`C_FindObjectsInit`): `none` = the comparison failed with an error -/
def matchEntry (o : Obj) (e : TEntry) : Option Bool :=
  match getA o.attrs e.ty with
  | none => some false
  | some (.bool b) => some (e.len == 1 && (((e.val.getD []).headD 0 == 1) == b))
  | some (.ulong n) => some (e.len == 8 && leToNat ((e.val.getD []).take 8) == n)
  | some (.bytes v enc) =>
    if o.isPriv && !v.isEmpty && !enc then none          -- `token->decrypt` fails on a value that was stored in the clear
    else some (v.length == e.len && (e.len == 0 || v == (e.val.getD []).take e.len))
  | some (.unk) => some false
  | some _ => some false        -- mechanism sets and attribute maps never match

def matchTpl (o : Obj) : Template → Option Bool
  | [] => some true
  | e :: rest =>
    match matchEntry o e with
    | none => none
    | some false => some false
    | some true => matchTpl o rest

def visible (st : SState) (o : Obj) : Bool :=
  !o.isPriv || st == .roUser || st == .rwUser

/-- `addTokenObject` / `addSessionObject` for objects without a handle: one new entry per object -/
def mintAll (hs : HTable) (c : Nat) (slot hSess : Nat) : List Obj → HTable
  | [] => hs
  | o :: rest =>
    mintAll (hs ++ [(c + 1, .obj { slot := slot, owner := if o.onToken then 0 else hSess, isPriv := o.isPriv, oid := o.oid })])
      (c + 1) slot hSess rest

/-- which handle-less match received the i-th new handle value, according to the observation (by label) -/
def assignMinted (lack : List Obj) (oMinted : List (Nat × Bytes)) (base : Nat) : List Obj :=
  (List.range lack.length).filterMap fun i =>
    match oMinted.find? (·.1 == base + 1 + i) with
    | some (_, lab) => lack.find? (·.label == lab)
    | none => none

def allDistinct : List Nat → Bool
  | [] => true
  | x :: xs => !xs.contains x && allDistinct xs

def stepFindInit (s : State) (h : Nat) (tpl : Template) (oMinted : List (Nat × Bytes)) : State × Resp :=
  match sessTok s h with
  | none => if (s.handles.getSess h).isNone then rOnly s CKR.SESSION_HANDLE_INVALID else rOnly s CKR.GENERAL_ERROR
  | some (ss, t) =>
    if ss.op != .none then rOnly s CKR.OPERATION_ACTIVE else
    let st := stateOf t ss.rw
    let vis := s.objs.filter fun o => o.slot == ss.slot && visible st o
    if vis.any (fun o => (matchTpl o tpl).isNone) then rOnly s CKR.GENERAL_ERROR else
    let cands := vis.filter fun o => (matchTpl o tpl) == some true
    let have_ := cands.filter fun o => (s.handles.handleOf o.oid).isSome
    let lack := cands.filter fun o => (s.handles.handleOf o.oid).isNone
    -- the library mints handles counter+1 … for the handle-less matches in pointer order, which the model
    -- cannot know: the observation says which object (by label) got which value
    let assigned := assignMinted lack oMinted s.counter
    let expectVals := (List.range lack.length).map (· + s.counter + 1)
    if assigned.length != lack.length || !allDistinct (assigned.map (·.oid)) || oMinted.length != lack.length then
      -- the oracle is inconsistent with the model: report the handles the model expects (the driver flags it)
      (s, { rv := CKR.FUNCTION_FAILED, nums := expectVals })
    else
      let handles := mintAll s.handles s.counter ss.slot h assigned
      let res := sortAsc (have_.filterMap (fun o => s.handles.handleOf o.oid) ++ expectVals)
      ({ s with counter := s.counter + assigned.length,
                handles := handles.setSess h { ss with op := .find, findRes := res } },
       { rv := CKR.OK, nums := expectVals })

/-! ### C_GetAttributeValue / C_SetAttributeValue / C_CopyObject / C_GetObjectSize -/

/-- `P11Object::loadTemplate`: per-entry results and the combined return code.
    `oVals`: observed bytes, adopted only for attributes whose value the model does not compute. -/
def loadEntries (cd : ClassDesc) (o : Attrs) (isPriv keyOk : Bool) :
    List (Nat × Option Nat) → List (Nat × Option Bytes) → List GetRes × Bool × Bool × Bool × Bool
  | [], _ => ([], false, false, false, false)
  | (ty, cap) :: rest, ov =>
    let (rs, sens, inv, small, gen) := loadEntries cd o isPriv keyOk rest ov.tail
    match descOf cd ty with
    | none => ({ len := UNAVAILABLE, data := none } :: rs, sens, true, small, gen)
    | some d =>
      match retrieve d o isPriv cap keyOk with
      | (.ok, r) => (r :: rs, sens, inv, small, gen)
      | (.sensitive, r) => (r :: rs, true, inv, small, gen)
      | (.tooSmall, r) => (r :: rs, sens, inv, true, gen)
      | (.invalid, r) => (r :: rs, sens, true, small, gen)
      | (.general, r) => (r :: rs, sens, inv, small, true)
      | (.unknown, _) =>
        -- not computed by the model (key check values): take length and bytes as the library answered them
        let obs := ov.headD (0, none)
        ({ len := obs.1, data := obs.2 } :: rs, sens, inv, small || obs.1 == UNAVAILABLE, gen)

def stepGetAttr (s : State) (h o : Nat) (req : List (Nat × Option Nat)) (oVals : List (Nat × Option Bytes)) : State × Resp :=
  match sessTok s h with
  | none => if (s.handles.getSess h).isNone then rOnly s CKR.SESSION_HANDLE_INVALID else rOnly s CKR.GENERAL_ERROR
  | some (ss, t) =>
    match resolveObj s o with
    | none => rOnly s CKR.OBJECT_HANDLE_INVALID
    | some (_, ob) =>
      let acc := Gen.haveRead (stateOf t ss.rw) ob.onToken ob.isPriv
      if acc != CKR.OK then rOnly s CKR.GENERAL_ERROR
      else match classOfAttrs ob.attrs with
        | none => rOnly s CKR.ATTRIBUTE_VALUE_INVALID
        | some cd =>
          let (rs, sens, inv, small, gen) := loadEntries cd ob.attrs ob.isPriv (ss.slot == ob.slot) req oVals
          -- `loadTemplate` returns GENERAL_ERROR at the first entry whose retrieval fails in another way
          let rv := if gen then CKR.GENERAL_ERROR else if sens then CKR.ATTRIBUTE_SENSITIVE
                    else if inv then CKR.ATTRIBUTE_TYPE_INVALID else if small then CKR.BUFFER_TOO_SMALL else CKR.OK
          if gen then rOnly s CKR.GENERAL_ERROR else
          (s, { rv := rv, nums := rs.map (·.len), vals := rs.map (·.data) })

def updObj (os : List Obj) (oid : Nat) (attrs : Attrs) : List Obj :=
  os.map fun o => if o.oid == oid then { o with attrs := attrs } else o

def stepSetAttr (s : State) (h o : Nat) (tpl : Template) (oEngine : RV) : State × Resp :=
  match sessTok s h with
  | none => if (s.handles.getSess h).isNone then rOnly s CKR.SESSION_HANDLE_INVALID else rOnly s CKR.GENERAL_ERROR
  | some (ss, t) =>
    match resolveObj s o with
    | none => rOnly s CKR.OBJECT_HANDLE_INVALID
    | some (_, ob) =>
      let acc := Gen.haveWrite (stateOf t ss.rw) ob.onToken ob.isPriv
      if acc != CKR.OK then rOnly s acc
      else if !getBoolD ob.attrs CKA.MODIFIABLE true then rOnly s CKR.ACTION_PROHIBITED
      else match classOfAttrs ob.attrs with
        | none => rOnly s CKR.ATTRIBUTE_VALUE_INVALID
        | some cd =>
          match saveTemplate cd ob.attrs tpl OP.SET ob.isPriv t.soIn oEngine with
          | .error rv => rOnly s rv
          | .ok attrs => ({ s with objs := updObj s.objs ob.oid attrs }, { rv := CKR.OK })

/-- attributes of the copy before the template is applied: byte strings are encrypted on a public→private copy -/
def reEnc (wasPriv isPriv : Bool) : AVal → AVal
  | .bytes v enc => .bytes v (if !wasPriv && isPriv && !v.isEmpty then true else enc)
  | x => x

def copyAttrs (o : Attrs) (wasPriv isPriv : Bool) : Attrs :=
  o.map fun e => (e.1, reEnc wasPriv isPriv e.2)

def stepCopy (s : State) (h o : Nat) (tpl : Template) (oEngine : RV) : State × Resp :=
  match sessTok s h with
  | none => if (s.handles.getSess h).isNone then rOnly s CKR.SESSION_HANDLE_INVALID else rOnly s CKR.GENERAL_ERROR
  | some (ss, t) =>
    match resolveObj s o with
    | none => rOnly s CKR.OBJECT_HANDLE_INVALID
    | some (_, ob) =>
      let st := stateOf t ss.rw
      let accR := Gen.haveRead st ob.onToken ob.isPriv
      if accR != CKR.OK then rOnly s accR
      else if !getBoolD ob.attrs CKA.COPYABLE true then rOnly s CKR.ACTION_PROHIBITED
      else
        let onToken := (tplBool tpl CKA.TOKEN).getD ob.onToken
        let isPriv := (tplBool tpl CKA.PRIVATE).getD ob.isPriv
        if ob.isPriv && !isPriv then rOnly s CKR.TEMPLATE_INCONSISTENT
        else
          let accW := Gen.haveWrite st onToken isPriv
          if accW != CKR.OK then rOnly s accW
          else match classOfAttrs ob.attrs with
            | none => rOnly s CKR.ATTRIBUTE_VALUE_INVALID
            | some cd =>
              match saveTemplate cd (copyAttrs ob.attrs ob.isPriv isPriv) tpl OP.COPY isPriv t.soIn oEngine with
              | .error rv => rOnly s rv       -- every failure path destroys the new object
              | .ok attrs =>
                let r := addObject s ss.slot h onToken isPriv attrs
                (r.1, { rv := CKR.OK, nums := [r.2] })

def stepObjSize (s : State) (h o : Nat) : State × Resp :=
  match sessTok s h with
  | none => if (s.handles.getSess h).isNone then rOnly s CKR.SESSION_HANDLE_INVALID else rOnly s CKR.GENERAL_ERROR
  | some _ =>
    match resolveObj s o with
    | none => rOnly s CKR.OBJECT_HANDLE_INVALID
    | some _ => (s, { rv := CKR.OK, nums := [UNAVAILABLE] })

def stepFind (s : State) (h max : Nat) : State × Resp :=
  match s.handles.getSess h with
  | none => rOnly s CKR.SESSION_HANDLE_INVALID
  | some ss =>
    if ss.op != .find then rOnly s CKR.OPERATION_NOT_INITIALIZED else
    ({ s with handles := s.handles.setSess h { ss with findRes := ss.findRes.drop max } },
     { rv := CKR.OK, nums := ss.findRes.take max })

def stepFindFinal (s : State) (h : Nat) : State × Resp :=
  match s.handles.getSess h with
  | none => rOnly s CKR.SESSION_HANDLE_INVALID
  | some ss =>
    if ss.op != .find then rOnly s CKR.OPERATION_NOT_INITIALIZED else
    ({ s with handles := s.handles.setSess h { ss with op := .none, findRes := [] } }, { rv := CKR.OK })

/-- every entry point first checks `isInitialised` -/
def guardInit (s : State) (r : State × Resp) : State × Resp :=
  if !s.initialised then rOnly s CKR.CRYPTOKI_NOT_INITIALIZED else r

def step (s : State) (c : Call) : State × Resp :=
  match c with
  | .initLib => stepInitialize s
  | .finiLib => stepFinalize s
  | .slots => guardInit s (stepSlots s)
  | .initToken slot pin label ser => guardInit s (stepInitToken s slot pin label ser)
  | .openSession slot flags => guardInit s (stepOpenSession s slot flags)
  | .closeSession h => guardInit s (stepCloseSession s h)
  | .closeAll slot => guardInit s (stepCloseAll s slot)
  | .sessInfo h => guardInit s (stepSessInfo s h)
  | .login h u p => guardInit s (stepLogin s h u p)
  | .logout h => guardInit s (stepLogout s h)
  | .initPin h p => guardInit s (stepInitPin s h p)
  | .setPin h o n => guardInit s (stepSetPin s h o n)
  | .create h tpl e => guardInit s (stepCreate s h tpl e)
  | .destroy h o => guardInit s (stepDestroy s h o)
  | .objProbe h o => guardInit s (stepObjProbe s h o)
  | .getAttr h o req ov => guardInit s (stepGetAttr s h o req ov)
  | .setAttr h o tpl e => guardInit s (stepSetAttr s h o tpl e)
  | .copy h o tpl e => guardInit s (stepCopy s h o tpl e)
  | .objSize h o => guardInit s (stepObjSize s h o)
  | .findInit h tpl m => guardInit s (stepFindInit s h tpl m)
  | .find h m => guardInit s (stepFind s h m)
  | .findFinal h => guardInit s (stepFindFinal s h)

def run (s : State) (cs : List Call) : State := cs.foldl (fun s c => (step s c).1) s

end Shm
