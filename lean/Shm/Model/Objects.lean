/-
  The attribute engine: P11Object::saveTemplate / loadTemplate, P11Attribute::update / retrieve
  (src/lib/P11Objects.cpp, P11Attributes.cpp), driven by the GENERATED class table and update programs.
-/
import Shm.Model.AttrIR
import Shm.Gen.ClassTable
namespace Shm

/-- `newP11Object(objClass, keyType, certType)`: the class descriptor whose `init` runs -/
def findClass (cls keyType certType : Nat) : Option ClassDesc :=
  Gen.classTable.find? fun c =>
    c.cls == cls &&
    (if cls == CKO.DATA then true
     else if cls == CKO.CERTIFICATE then c.certType == certType
     else c.keyType == keyType)

/-- attributes written by `P11XObj::init` on a fresh object (class / key type / certificate type and every default) -/
def initAttrs (cd : ClassDesc) : Attrs :=
  cd.attrs.foldl (fun o d => match d.dflt with | some v => setA o d.ty v | none => o) []

def descOf (cd : ClassDesc) (ty : Nat) : Option AttrDesc := cd.attrs.find? (·.ty == ty)

/-- `newP11Object(OSObject*)`: class from the object's own attributes -/
def classOfAttrs (o : Attrs) : Option ClassDesc :=
  findClass (getULongD o CKA.CLASS 0x80000000) (getULongD o CKA.KEY_TYPE 0) (getULongD o CKA.CERTIFICATE_TYPE 0)

/-- `ByteString::bits`: number of bits without leading zero bits -/
def leadingZeroBits (b : UInt8) : Nat :=
  if b.toNat ≥ 128 then 0 else if b.toNat ≥ 64 then 1 else if b.toNat ≥ 32 then 2 else if b.toNat ≥ 16 then 3
  else if b.toNat ≥ 8 then 4 else if b.toNat ≥ 4 then 5 else if b.toNat ≥ 2 then 6 else if b.toNat ≥ 1 then 7 else 8

def bitsOf : Bytes → Nat
  | [] => 0
  | b :: rest => if b == 0 then bitsOf rest else (rest.length + 1) * 8 - leadingZeroBits b

/-- attribute types whose elements of a wrap/unwrap template are booleans / unsigned longs (P11AttrWrapTemplate::updateAttr) -/
def amapBoolTypes : List Nat :=
  [0x1, 0x2, 0x170, 0x171, 0x86, 0x104, 0x105, 0x108, 0x109, 0x10A, 0x10B, 0x106, 0x107, 0x10C, 0x163, 0x165, 0x103, 0x164,
   0x162, 0x210, 0x200, 0x202]
def amapULongTypes : List Nat :=
  [0x0, 0x100, 0x80, 0x87, 0x88, 0x8C, 0x166, 0x121, 0x133, 0x134, 0x160, 0x161, 0x201]

def insertAmap (l : List (Nat × Nat × Bytes)) (e : Nat × Nat × Bytes) : List (Nat × Nat × Bytes) :=
  match l with
  | [] => [e]
  | x :: xs => if e.1 == x.1 then x :: xs       -- std::map::insert keeps the first
               else if e.1 < x.1 then e :: x :: xs else x :: insertAmap xs e

/-- parse the elements of a wrap/unwrap template -/
def buildAmap : List (Nat × Option Bytes × Nat) → List (Nat × Nat × Bytes) → Except RV (List (Nat × Nat × Bytes))
  | [], acc => .ok acc
  | (ty, v, len) :: rest, acc =>
    let bytes := (v.getD []).take len
    if amapBoolTypes.contains ty then
      if len != 1 then .error CKR.ATTRIBUTE_VALUE_INVALID
      else buildAmap rest (insertAmap acc (ty, 1, [if bytes.headD 0 != 0 then 1 else 0]))
    else if amapULongTypes.contains ty then
      if len != 8 then .error CKR.ATTRIBUTE_VALUE_INVALID else buildAmap rest (insertAmap acc (ty, 2, bytes))
    else if ty == 0x40000211 || ty == 0x40000212 then .error CKR.ATTRIBUTE_VALUE_INVALID
    else buildAmap rest (insertAmap acc (ty, 3, bytes))

def chunks8 : Nat → Bytes → List Nat
  | 0, _ => []
  | n + 1, b => leToNat (b.take 8) :: chunks8 n (b.drop 8)

def insertAscN (x : Nat) : List Nat → List Nat
  | [] => [x]
  | y :: ys => if x < y then x :: y :: ys else if x == y then y :: ys else y :: insertAscN x ys

/-- the named byte-string idioms (`UKind`) -/
def runUpdateAttr (k : UKind) (e : UEnv) (nested : Option (List (Nat × Option Bytes × Nat))) (o : Attrs) (oRv : RV) : RV × Attrs :=
  match k with
  | .prog p =>
    (match runProg e p o with
     | .done rv o' => (rv, o')
     | .base o' => (CKR.OK, setA o' e.selfTy (.bytes e.bytes e.isPrivate))
     | _ => (CKR.GENERAL_ERROR, o))
  | .bytesEnc => (CKR.OK, setA o e.selfTy (.bytes e.bytes e.isPrivate))
  | .bytesEncModulus =>
    let o1 := setA o e.selfTy (.bytes e.bytes e.isPrivate)
    (CKR.OK, if e.op == OP.CREATE && (getA o1 0x121).isSome then setA o1 0x121 (.ulong (bitsOf e.bytes)) else o1)
  | .bytesEncPrime =>
    let o1 := setA o e.selfTy (.bytes e.bytes e.isPrivate)
    (CKR.OK, if e.op == OP.CREATE && (getA o1 0x133).isSome then setA o1 0x133 (.ulong (bitsOf e.bytes)) else o1)
  | .value =>
    let o1 := setA o e.selfTy (.bytes e.bytes e.isPrivate)
    let o2 := if e.op == OP.CREATE || e.op == OP.UNWRAP then
                let a := if (getA o1 0x161).isSome then setA o1 0x161 (.ulong e.bytes.length) else o1
                if (getA a 0x160).isSome then setA a 0x160 (.ulong (bitsOf e.bytes)) else a
              else o1
    let cls := getULongD o2 CKA.CLASS 0x80000000
    -- certificates: CHECK_VALUE := first 3 bytes of SHA-1(value); secret keys on create: the key check value
    let o3 := if cls == CKO.CERTIFICATE then setA o2 CKA.CHECK_VALUE .unk else o2
    let o4 := if e.op == OP.CREATE && cls == CKO.SECRET_KEY then setA o3 CKA.CHECK_VALUE .unk else o3
    (CKR.OK, o4)
  | .checkValue =>
    if e.len == 0 then (CKR.OK, setA o e.selfTy (.bytes [] e.isPrivate))
    else if oRv == CKR.OK then (CKR.OK, setA o e.selfTy (.bytes e.bytes e.isPrivate))    -- accepted: equals the key check value
    else (oRv, o)
  | .attrMap =>
    if e.len % 24 != 0 then (CKR.ATTRIBUTE_VALUE_INVALID, o)
    else match buildAmap (nested.getD []) [] with
      | .ok m => (CKR.OK, setA o e.selfTy (.amap m))
      | .error rv => (rv, o)
  | .mechSet =>
    if e.len == 0 || e.len % 8 != 0 then (CKR.ATTRIBUTE_VALUE_INVALID, o)
    else (CKR.OK, setA o e.selfTy (.mechs ((chunks8 (e.len / 8) e.bytes).foldl (fun acc m => insertAscN m acc) [])))
  | .unknown => (oRv, o)

/-- what `P11Attribute::update(token, isPrivate, pValue, ulValueLen, op)` sees -/
def mkEnv (d : AttrDesc) (t : TEntry) (op : Nat) (isPrivate soIn : Bool) : UEnv :=
  { selfTy := d.ty, checks := d.checks, size := d.size, val := t.val, len := t.len, op := op,
    isPrivate := isPrivate, soIn := soIn }

/-- `P11Attribute::update` -/
def updateAttribute (d : AttrDesc) (t : TEntry) (op : Nat) (isPrivate soIn : Bool) (o : Attrs) (oRv : RV) : RV × Attrs :=
  match runProg (mkEnv d t op isPrivate soIn) Gen.genericUpdate o with
  | .done rv o' => (rv, o')
  | .fell o' => (CKR.GENERAL_ERROR, o')
  | .base o' => (CKR.GENERAL_ERROR, o')
  | .call o' => runUpdateAttr d.upd (mkEnv d t op isPrivate soIn) t.nested o' oRv

/-- the loop of `P11Object::saveTemplate` over the template entries -/
def applyEntries (cd : ClassDesc) (op : Nat) (isPrivate soIn : Bool) (oRv : RV) : Template → Attrs → RV × Attrs
  | [], o => (CKR.OK, o)
  | t :: rest, o =>
    match descOf cd t.ty with
    | none => (CKR.ATTRIBUTE_TYPE_INVALID, o)
    | some d =>
      let (rv, o') := updateAttribute d t op isPrivate soIn o oRv
      if rv != CKR.OK then (rv, o') else applyEntries cd op isPrivate soIn oRv rest o'

def hasCheckN (checks n : Nat) : Bool := (checks / checkBit n) % 2 == 1

/-- mandatory attributes: ck1 on create, ck3 on generate, ck5 on unwrap -/
def mandatoryOk (cd : ClassDesc) (op : Nat) (tpl : Template) : Bool :=
  cd.attrs.all fun d =>
    let need := (hasCheckN d.checks 1 && op == OP.CREATE) || (hasCheckN d.checks 3 && op == OP.GENERATE) ||
                (hasCheckN d.checks 5 && op == OP.UNWRAP)
    !need || tpl.any (·.ty == d.ty)

/-- `P11Object::saveTemplate`: `.ok attrs'` on commit, `.error rv` on abort (the object keeps its attributes) -/
def saveTemplate (cd : ClassDesc) (o : Attrs) (tpl : Template) (op : Nat) (isPrivate soIn : Bool) (oRv : RV) : Except RV Attrs :=
  if op == OP.SET && !getBoolD o CKA.MODIFIABLE true then .error CKR.ACTION_PROHIBITED
  else if op == OP.COPY && !getBoolD o CKA.COPYABLE true then .error CKR.ACTION_PROHIBITED
  else
    let (rv, o') := applyEntries cd op isPrivate soIn oRv tpl o
    if rv != CKR.OK then .error rv
    else if !mandatoryOk cd op tpl then .error CKR.TEMPLATE_INCOMPLETE
    else .ok o'

/-! ### retrieval -/

def avalBytes : AVal → Option Bytes
  | .bool b => some [if b then 1 else 0]
  | .ulong n => some (ulongLE n)
  | .bytes v _ => some v
  | .mechs l => some (l.flatMap ulongLE)
  | .amap _ => none
  | .unk => none

def avalSize (d : AttrDesc) : AVal → Option Nat
  | .bytes v _ => some (d.size.getD v.length)
  | .mechs l => some (l.length * 8)
  | .amap l => some (l.length * 24)
  | .bool _ => d.size
  | .ulong _ => d.size
  | .unk => none

/-- result for one entry of `C_GetAttributeValue`: reported length (`UNAVAILABLE` = (CK_ULONG)-1) and the bytes written -/
structure GetRes where
  len : Nat
  data : Option Bytes        -- `none`: nothing written
  deriving DecidableEq, Repr, Inhabited

inductive GetRv | ok | sensitive | invalid | tooSmall | general | unknown
  deriving DecidableEq, Repr

/-- `P11Attribute::retrieve`; `cap = none` is a NULL buffer -/
def retrieve (d : AttrDesc) (o : Attrs) (isPrivate : Bool) (cap : Option Nat) (keyOk : Bool := true) : GetRv × GetRes :=
  if hasCheckN d.checks 7 && (getBoolD o CKA.SENSITIVE false || !getBoolD o CKA.EXTRACTABLE true) then
    (.sensitive, { len := UNAVAILABLE, data := none })
  else match getA o d.ty with
    | none => (.general, { len := 0, data := none })
    | some (.bytes (_ :: _) true) =>
      -- encrypted under the key of the object's token: a session of another token cannot decrypt it
      if isPrivate && !keyOk then (.general, { len := 0, data := none })
      else (match getA o d.ty with
        | some v => (match avalSize d v with
          | none => (.unknown, { len := 0, data := none })
          | some sz => (match cap with
            | none => (.ok, { len := sz, data := none })
            | some c => if c ≥ sz then (.ok, { len := sz, data := if sz == 0 then none else avalBytes v }) else (.tooSmall, { len := UNAVAILABLE, data := none })))
        | none => (.general, { len := 0, data := none }))
    | some (.bytes (_ :: _) false) =>
      -- a non-empty byte string that was stored unencrypted: on a private object `token->decrypt` fails
      if isPrivate then (.general, { len := 0, data := none })
      else (match getA o d.ty with
        | some v => (match avalSize d v with
          | none => (.unknown, { len := 0, data := none })
          | some sz => (match cap with
            | none => (.ok, { len := sz, data := none })
            | some c => if c ≥ sz then (.ok, { len := sz, data := if sz == 0 then none else avalBytes v }) else (.tooSmall, { len := UNAVAILABLE, data := none })))
        | none => (.general, { len := 0, data := none }))
    | some v =>
      match avalSize d v with
      | none => (.unknown, { len := 0, data := none })         -- value the model does not compute
      | some sz =>
        match cap with
        | none => (.ok, { len := sz, data := none })
        | some c =>
          if c ≥ sz then (.ok, { len := sz, data := if sz == 0 then none else avalBytes v }) else (.tooSmall, { len := UNAVAILABLE, data := none })

end Shm
