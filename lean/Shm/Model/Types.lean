/-
  State of the executable model.  One handle table (as in HandleManager: one counter, one map) whose
  session entries carry the session record (SessionManager's vector is not modelled separately: its
  internal ids are not observable through the API).
-/
import Shm.Base.Hex
import Shm.Model.Consts
namespace Shm

/-- one CK_ATTRIBUTE of a template. `val = none` is a NULL pointer (then `len` is what the caller announced);
    `nested` is set for array-valued attributes (CKA_WRAP_TEMPLATE / CKA_UNWRAP_TEMPLATE): (type, value, length). -/
structure TEntry where
  ty : Nat
  val : Option Bytes
  len : Nat
  nested : Option (List (Nat × Option Bytes × Nat)) := none
  deriving DecidableEq, Repr, Inhabited

abbrev Template := List TEntry

/-- operation kinds of `Session::operation` -/
inductive OpKind | none | find | encrypt | decrypt | digest | sign | verify
  deriving DecidableEq, Repr, Inhabited

inductive CMode | ecb | cbc | ctr | gcm
  deriving DecidableEq, Repr, Inhabited

/-- bookkeeping of an active symmetric cipher operation (SymmetricAlgorithm / OSSLEVPSymmetricAlgorithm) -/
structure Cipher where
  encrypt : Bool
  bs : Nat                 -- block size of the algorithm (16 AES, 8 DES/3DES)
  mode : CMode
  padding : Bool
  tagBytes : Nat := 0
  buffered : Nat := 0      -- `getBufferSize()`: bytes fed and not yet returned
  ctrLimit : Option Nat := none   -- CTR: bytes the counter still allows (`maximumBytes - counterBytes`)
  deriving DecidableEq, Repr, Inhabited

/-- what an active operation remembers besides its kind -/
structure OpDetail where
  sym : Option Cipher := none
  outLen : Nat := 0        -- fixed output size: digest / MAC / signature / modulus
  multi : Bool := true     -- `getAllowMultiPartOp`
  single : Bool := true    -- `getAllowSinglePartOp`
  reauth : Bool := false   -- CKA_ALWAYS_AUTHENTICATE: a context-specific login is required first
  rawRsa : Bool := false   -- CKM_RSA_X_509
  mech : Nat := 0
  keyOid : Nat := 0
  deriving DecidableEq, Repr, Inhabited

structure Sess where
  slot : Nat
  rw : Bool
  op : OpKind := .none
  findRes : List Nat := []      -- handles still to be returned by C_FindObjects
  opd : OpDetail := {}
  deriving DecidableEq, Repr, Inhabited

structure ObjH where
  slot : Nat
  owner : Nat        -- session handle that owns a session object; 0 for token objects
  isPriv : Bool
  oid : Nat
  deriving DecidableEq, Repr, Inhabited

inductive Ent
  | sess (s : Sess)
  | obj (o : ObjH)
  deriving DecidableEq, Repr, Inhabited

def Ent.slot : Ent → Nat
  | .sess s => s.slot
  | .obj o => o.slot

def Ent.isSess : Ent → Bool
  | .sess _ => true
  | .obj _ => false

abbrev HTable := List (Nat × Ent)

/-- stored attribute values; `bytes` holds what `C_GetAttributeValue` returns (plaintext view) -/
inductive AVal
  | bool (b : Bool)
  | ulong (n : Nat)
  | bytes (v : Bytes) (enc : Bool := false)       -- `enc`: stored encrypted under the token key (private objects)
  | mechs (l : List Nat)                         -- mechanism-type set, ascending
  | amap (l : List (Nat × Nat × Bytes))          -- attribute map: (type, kind 1 bool / 2 ulong / 3 bytes, raw value), ascending
  | unk                                          -- a value the model does not compute (learned from the observation)
  deriving DecidableEq, Repr, Inhabited

structure Obj where
  oid : Nat
  slot : Nat
  onToken : Bool
  owner : Nat           -- creating session (session objects), 0 otherwise
  isPriv : Bool
  attrs : List (Nat × AVal)
  deriving DecidableEq, Repr, Inhabited

/-- An initialised token.  `soPin`/`userPin` are the PINs the blobs were made from (ideal-PBE reading:
    a blob opens exactly under the PIN it was made with). -/
structure Tok where
  label : Bytes
  serial : Bytes
  soPin : Bytes
  userPin : Option Bytes
  soIn : Bool := false
  userIn : Bool := false
  soLow : Bool := false          -- CKF_SO_PIN_COUNT_LOW
  userLow : Bool := false        -- CKF_USER_PIN_COUNT_LOW
  deriving DecidableEq, Repr, Inhabited

structure Slot where
  id : Nat
  tok : Option Tok
  deriving DecidableEq, Repr, Inhabited

/-- slots.mechanisms -/
inductive MechCfg
  | all
  | pos (names : List String)
  | neg (names : List String)
  deriving DecidableEq, Repr, Inhabited

structure State where
  initialised : Bool := false
  mechCfg : MechCfg := .all
  slots : List Slot := []
  handles : HTable := []
  counter : Nat := 0
  objs : List Obj := []
  nextOid : Nat := 1
  deriving DecidableEq, Repr, Inhabited

/-- what the library answers; which fields are meaningful depends on the call -/
structure Resp where
  rv : RV
  nums : List Nat := []             -- handles / state / counts, call specific
  vals : List (Option Bytes) := []  -- returned byte strings, call specific
  deriving DecidableEq, Repr, Inhabited

end Shm
