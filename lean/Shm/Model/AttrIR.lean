/-
  The intermediate representation into which tools/translate_attrs.py renders `P11Attribute::update` and every
  `P11AttrX::updateAttr` body of src/lib/P11Attributes.cpp, and its interpreter.
-/
import Shm.Model.Types
namespace Shm

/-- conditions that occur in the translated bodies -/
inductive UCond
  | f                                        -- constant false (`osobject == NULL`)
  | lenNe (n : Nat)                          -- ulValueLen != n
  | valFalse                                 -- *(CK_BBOOL*)pValue == CK_FALSE
  | valNull                                  -- pValue == NULL_PTR
  | sizeFixed                                -- size != (CK_ULONG)-1
  | sizeNeLen                                -- size != ulValueLen
  | objBool (attr : Nat) (dflt : Bool)       -- osobject->getBooleanValue(attr, dflt)
  | objULongNeVal (attr dflt : Nat)          -- osobject->getUnsignedLongValue(attr, dflt) != *(CK_ULONG*)pValue
  | objULongEq (attr dflt val : Nat)         -- osobject->getUnsignedLongValue(attr, dflt) == val
  | opIs (op : Nat)                          -- op == OBJECT_OP_x
  | soLoggedIn                               -- token->isSOLoggedIn()
  | isPrivate
  | objHas (attr : Nat)                      -- osobject->attributeExists(attr)
  | hasCheck (n : Nat)                       -- (checks & ckN) == ckN
  | not (a : UCond)
  | or (a b : UCond)
  | and (a b : UCond)
  deriving Repr, DecidableEq, Inhabited

inductive UAct
  | setBool (attr : Option Nat) (v : Bool)   -- osobject->setAttribute(type | CKA_x, attrTrue | attrFalse)
  | setULongVal                              -- osobject->setAttribute(type, *(CK_ULONG*)pValue)
  | setBytesPlain                            -- osobject->setAttribute(type, ByteString(pValue, len))   (never encrypted!)
  deriving Repr, DecidableEq, Inhabited

/-- statement tree; `ite c t e k`: `k` runs when the taken branch falls through -/
inductive UProg
  | ret (rv : Nat)
  | callUpdateAttr                           -- return updateAttr(...)            (in P11Attribute::update)
  | callBase                                 -- return P11Attribute::updateAttr(...)  (the generic byte-string store)
  | fall
  | act (a : UAct) (k : UProg)
  | ite (c : UCond) (t e k : UProg)
  deriving Repr, DecidableEq, Inhabited

/-- what an `updateAttr` body is: a translated program, or one of the byte-string idioms recognised as a whole -/
inductive UKind
  | prog (p : UProg)
  | bytesEnc            -- P11Attribute::updateAttr: store the bytes, encrypted when the object is private
  | value               -- P11AttrValue: bytesEnc + VALUE_LEN / VALUE_BITS / CHECK_VALUE side effects
  | checkValue          -- P11AttrCheckValue: empty, or must equal the key check value
  | bytesEncModulus     -- P11AttrModulus: bytesEnc + MODULUS_BITS on create
  | bytesEncPrime       -- P11AttrPrime: bytesEnc + PRIME_BITS on create
  | attrMap             -- P11AttrWrapTemplate / P11AttrUnwrapTemplate
  | mechSet             -- P11AttrAllowedMechanisms
  | unknown             -- a body the translator did not recognise (broken T-obligation)
  deriving Repr, DecidableEq, Inhabited

/-! OBJECT_OP_x -/
namespace OP
@[reducible] def COPY := 1
@[reducible] def CREATE := 2
@[reducible] def DERIVE := 3
@[reducible] def GENERATE := 4
@[reducible] def SET := 5
@[reducible] def UNWRAP := 6
end OP

abbrev Attrs := List (Nat × AVal)

def getA (o : Attrs) (ty : Nat) : Option AVal := o.lookup ty

/-- std::map semantics: replace in place, else insert keeping ascending order of types -/
def setA : Attrs → Nat → AVal → Attrs
  | [], ty, v => [(ty, v)]
  | (t, x) :: rest, ty, v =>
    if ty == t then (t, v) :: rest
    else if ty < t then (ty, v) :: (t, x) :: rest
    else (t, x) :: setA rest ty v

def getBoolD (o : Attrs) (ty : Nat) (d : Bool) : Bool :=
  match getA o ty with
  | some (.bool b) => b
  | _ => d

def getULongD (o : Attrs) (ty : Nat) (d : Nat) : Nat :=
  match getA o ty with
  | some (.ulong n) => n
  | _ => d

/-- what one attribute update sees -/
structure UEnv where
  selfTy : Nat
  checks : Nat
  size : Option Nat          -- fixed size; `none` = variable
  val : Option Bytes         -- `none` = NULL pointer
  len : Nat
  op : Nat
  isPrivate : Bool
  soIn : Bool
  deriving Repr

def UEnv.bytes (e : UEnv) : Bytes := (e.val.getD []).take e.len

def checkBit (n : Nat) : Nat := 2 ^ (n - 1)

def evalCond (e : UEnv) (o : Attrs) : UCond → Bool
  | .f => false
  | .lenNe n => e.len != n
  | .valFalse => match e.val with | some (b :: _) => b == 0 | _ => true
  | .valNull => e.val.isNone
  | .sizeFixed => e.size.isSome
  | .sizeNeLen => e.size != some e.len
  | .objBool a d => getBoolD o a d
  | .objULongNeVal a d => getULongD o a d != leToNat (e.bytes.take 8)
  | .objULongEq a d v => getULongD o a d == v
  | .opIs op => e.op == op
  | .soLoggedIn => e.soIn
  | .isPrivate => e.isPrivate
  | .objHas a => (getA o a).isSome
  | .hasCheck n => (e.checks / checkBit n) % 2 == 1
  | .not a => !evalCond e o a
  | .or a b => evalCond e o a || evalCond e o b
  | .and a b => evalCond e o a && evalCond e o b

def doAct (e : UEnv) (o : Attrs) : UAct → Attrs
  | .setBool none v => setA o e.selfTy (.bool v)
  | .setBool (some a) v => setA o a (.bool v)
  | .setULongVal => setA o e.selfTy (.ulong (leToNat (e.bytes.take 8)))
  | .setBytesPlain => setA o e.selfTy (.bytes e.bytes false)

inductive URes
  | done (rv : Nat) (o : Attrs)
  | call (o : Attrs)             -- `return updateAttr(...)`
  | base (o : Attrs)             -- `return P11Attribute::updateAttr(...)`
  | fell (o : Attrs)
  deriving Repr

def runProg (e : UEnv) : UProg → Attrs → URes
  | .ret rv, o => .done rv o
  | .callUpdateAttr, o => .call o
  | .callBase, o => .base o
  | .fall, o => .fell o
  | .act a k, o => runProg e k (doAct e o a)
  | .ite c t el k, o =>
    match (if evalCond e o c then runProg e t o else runProg e el o) with
    | .fell o' => runProg e k o'
    | r => r

end Shm
