/-
  Model of HandleManager (src/lib/handle_mgr/HandleManager.cpp), SessionObjectStore's purge rules and
  the token login flags.  Every function mirrors one C++ method; the names say which.
-/
import Shm.Model.Types
namespace Shm

/-! ### the handle table -/

def HTable.get (t : HTable) (h : Nat) : Option Ent := t.lookup h

def HTable.getSess (t : HTable) (h : Nat) : Option Sess :=
  match t.get h with
  | some (.sess s) => some s
  | _ => none

def HTable.getObjH (t : HTable) (h : Nat) : Option ObjH :=
  match t.get h with
  | some (.obj o) => some o
  | _ => none

/-- erase every entry satisfying `p` -/
def HTable.eraseIf (t : HTable) (p : Nat → Ent → Bool) : HTable :=
  t.filter fun e => !p e.1 e.2

/-- overwrite the session record stored under `h` (sessions are mutated in place in C++) -/
def replSess (s : Sess) : Ent → Ent
  | .sess _ => .sess s
  | e => e

def HTable.setSess (t : HTable) (h : Nat) (s : Sess) : HTable :=
  t.map fun e => (e.1, if e.1 == h then replSess s e.2 else e.2)

/-- handle registered for object `oid` (the reverse map `objects`) -/
def HTable.handleOf (t : HTable) (oid : Nat) : Option Nat :=
  (t.find? fun e => match e.2 with | .obj o => o.oid == oid | _ => false).map (·.1)

/-- a session entry of `slot` -/
def isSessOn (slot : Nat) : Ent → Bool
  | .sess x => x.slot == slot
  | _ => false

/-- a read-only session entry of `slot` -/
def isROSessOn (slot : Nat) : Ent → Bool
  | .sess x => x.slot == slot && !x.rw
  | _ => false

/-- an object entry registered under session `h` (`Handle::hSession`) -/
def ownedBy (h : Nat) : Ent → Bool
  | .obj o => o.owner == h
  | _ => false

/-- an object entry of `slot` flagged private -/
def privOn (slot : Nat) : Ent → Bool
  | .obj o => o.slot == slot && o.isPriv
  | _ => false

/-- is any session of `slot` open? (`SessionManager::haveSession`) -/
def HTable.haveSession (t : HTable) (slot : Nat) : Bool :=
  t.any fun e => isSessOn slot e.2

/-- is a read-only session of `slot` open? (`SessionManager::haveROSession`) -/
def HTable.haveROSession (t : HTable) (slot : Nat) : Bool :=
  t.any fun e => isROSessOn slot e.2

/-- `HandleManager::allSessionsClosed(slot)` -/
def HTable.allSessionsClosed (t : HTable) (slot : Nat) : HTable :=
  t.eraseIf fun _ e => e.slot == slot

/-- `HandleManager::sessionClosed(h)` -/
def HTable.sessionClosed (t : HTable) (h : Nat) : HTable :=
  match t.getSess h with
  | none => t
  | some s =>
    let t1 := t.eraseIf fun k _ => k == h
    let t2 := t1.eraseIf fun _ e => ownedBy h e
    if t2.haveSession s.slot then t2 else t2.allSessionsClosed s.slot

/-- `HandleManager::tokenLoggedOut(slot)` -/
def HTable.tokenLoggedOut (t : HTable) (slot : Nat) : HTable :=
  t.eraseIf fun _ e => privOn slot e

/-- `HandleManager::destroyObject(h)` -/
def HTable.destroyObject (t : HTable) (h : Nat) : HTable :=
  match t.getObjH h with
  | none => t
  | some _ => t.eraseIf fun k _ => k == h

/-! ### session object store purge rules (`SessionObject::removeOn…`) -/

def objsSessionClosed (os : List Obj) (h : Nat) : List Obj :=
  os.filter fun o => !(!o.onToken && o.owner == h)

def objsAllSessionsClosed (os : List Obj) (slot : Nat) : List Obj :=
  os.filter fun o => !(!o.onToken && o.slot == slot)

def objsTokenLoggedOut (os : List Obj) (slot : Nat) : List Obj :=
  os.filter fun o => !(!o.onToken && o.slot == slot && o.isPriv)

/-! ### slots and tokens -/

def findSlot (ss : List Slot) (id : Nat) : Option Slot := ss.find? (·.id == id)

def findTok (ss : List Slot) (id : Nat) : Option Tok := (findSlot ss id).bind (·.tok)

def setTok (ss : List Slot) (id : Nat) (t : Tok) : List Slot :=
  ss.map fun s => if s.id == id then { s with tok := some t } else s

def Tok.logout (t : Tok) : Tok := { t with soIn := false, userIn := false }

/-- `Session::getState` -/
def stateOf (t : Tok) (rw : Bool) : SState :=
  if t.soIn then .rwSO
  else if t.userIn then (if rw then .rwUser else .roUser)
  else (if rw then .rwPublic else .roPublic)

/-- token flags as reported by `C_GetTokenInfo` (OSToken.cpp: RNG | LOGIN_REQUIRED | RESTORE_KEY_NOT_NEEDED |
    TOKEN_INITIALIZED, USER_PIN_INITIALIZED once a user PIN exists, the two COUNT_LOW bits) -/
def Tok.flags (t : Tok) : Nat :=
  0x1 + 0x4 + 0x20 + 0x400 + (if t.userPin.isSome then 0x8 else 0)
    + (if t.userLow then 0x10000 else 0) + (if t.soLow then 0x100000 else 0)

/-- flags of a slot without token (`Token::getTokenInfo`, `token == NULL`) -/
def uninitFlags : Nat := 0x1 + 0x4 + 0x20 + 0x400000 + 0x800000

end Shm
