/-
  Cryptographic operations: which operation may start (C07), the one-operation-per-session automaton and the
  output-length protocol (C12).  Follows SymEncryptInit … C_DigestFinal of src/lib/SoftHSM.cpp and the buffer
  bookkeeping of SymmetricAlgorithm.cpp / OSSLEVPSymmetricAlgorithm.cpp.  Byte values produced by the
  primitives are NOT computed here: they enter as observed values (`oData`); lengths and return codes are computed.
-/
import Shm.Model.Step
import Shm.Gen.MechTable
namespace Shm

/-! ### configuration: slots.mechanisms -/

def mechByName (n : String) : Option Nat := (Gen.mechTable.find? (·.1 == n)).map (·.2.1)

def allMechs : List Nat := Gen.mechTable.map (·.2.1)

/-- `SoftHSM::prepareSupportedMecahnisms`: ALL, a positive list, or a negative list (`-A,B`); unknown names are ignored -/
def supportedMechs : MechCfg → List Nat
  | .all => allMechs
  | .pos names => names.filterMap mechByName
  | .neg names => allMechs.filter fun m => !(names.filterMap mechByName).contains m

def parseMechCfg (s : String) : MechCfg :=
  if s == "ALL" || s == "" then .all
  else if s.startsWith "-" then .neg ((s.drop 1).toString.splitOn ",")
  else .pos (s.splitOn ",")

/-- `isMechanismPermitted`: enabled by the configuration, and in CKA_ALLOWED_MECHANISMS when that list is not empty -/
def mechPermitted (cfg : MechCfg) (key : Attrs) (mech : Nat) : Bool :=
  (supportedMechs cfg).contains mech &&
    (match getA key 0x40000600 with
     | some (.mechs l) => l.isEmpty || l.contains mech
     | _ => true)

/-! ### mechanism tables (the `switch (pMechanism->mechanism)` arms) -/

namespace CKK
@[reducible] def RSA := 0x0
@[reducible] def DSA := 0x1
@[reducible] def DH := 0x2
@[reducible] def EC := 0x3
@[reducible] def GENERIC := 0x10
@[reducible] def DES := 0x13
@[reducible] def DES2 := 0x14
@[reducible] def DES3 := 0x15
@[reducible] def AES := 0x1F
@[reducible] def MD5_HMAC := 0x27
@[reducible] def SHA1_HMAC := 0x28
@[reducible] def SHA256_HMAC := 0x2B
@[reducible] def SHA384_HMAC := 0x2C
@[reducible] def SHA512_HMAC := 0x2D
@[reducible] def SHA224_HMAC := 0x2E
@[reducible] def EC_EDWARDS := 0x40
end CKK

/-- symmetric cipher mechanisms: key types, block size, mode, padding (the arms of SymEncryptInit / SymDecryptInit) -/
def symMechTbl : List (Nat × (List Nat × Nat × CMode × Bool)) :=
  [(0x121, ([CKK.DES], 8, .ecb, false)), (0x122, ([CKK.DES], 8, .cbc, false)), (0x125, ([CKK.DES], 8, .cbc, true)),
   (0x132, ([CKK.DES2, CKK.DES3], 8, .ecb, false)), (0x133, ([CKK.DES2, CKK.DES3], 8, .cbc, false)), (0x136, ([CKK.DES2, CKK.DES3], 8, .cbc, true)),
   (0x1081, ([CKK.AES], 16, .ecb, false)), (0x1082, ([CKK.AES], 16, .cbc, false)), (0x1085, ([CKK.AES], 16, .cbc, true)),
   (0x1086, ([CKK.AES], 16, .ctr, false)), (0x1087, ([CKK.AES], 16, .gcm, false))]

def tblFind {β} (t : List (Nat × β)) (m : Nat) : Option β := (t.find? (·.1 == m)).map (·.2)

def symMech (m : Nat) : Option (List Nat × Nat × CMode × Bool) := tblFind symMechTbl m

/-- MAC mechanisms: key types, minimum key bytes, MAC size (the arms of MacSignInit / MacVerifyInit) -/
def macMechTbl : List (Nat × (List Nat × Nat × Nat)) :=
  [(0x211, ([CKK.GENERIC, CKK.MD5_HMAC], 16, 16)), (0x221, ([CKK.GENERIC, CKK.SHA1_HMAC], 20, 20)), (0x256, ([CKK.GENERIC, CKK.SHA224_HMAC], 28, 28)),
   (0x251, ([CKK.GENERIC, CKK.SHA256_HMAC], 32, 32)), (0x261, ([CKK.GENERIC, CKK.SHA384_HMAC], 48, 48)), (0x271, ([CKK.GENERIC, CKK.SHA512_HMAC], 64, 64)),
   (0x138, ([CKK.DES2, CKK.DES3], 0, 8)), (0x108A, ([CKK.AES], 0, 16))]

def macMech (m : Nat) : Option (List Nat × Nat × Nat) := tblFind macMechTbl m

/-- asymmetric signature mechanisms: key type, multi-part allowed (the arms of AsymSignInit / AsymVerifyInit) -/
def asymSigMechTbl : List (Nat × (Nat × Bool)) :=
  [(0x1, (CKK.RSA, false)), (0x3, (CKK.RSA, false)),
   (0x5, (CKK.RSA, true)), (0x6, (CKK.RSA, true)), (0x46, (CKK.RSA, true)), (0x40, (CKK.RSA, true)), (0x41, (CKK.RSA, true)), (0x42, (CKK.RSA, true)),
   (0xD, (CKK.RSA, false)),
   (0xE, (CKK.RSA, true)), (0x47, (CKK.RSA, true)), (0x43, (CKK.RSA, true)), (0x44, (CKK.RSA, true)), (0x45, (CKK.RSA, true)),
   (0x11, (CKK.DSA, false)), (0x12, (CKK.DSA, true)), (0x13, (CKK.DSA, true)), (0x14, (CKK.DSA, true)), (0x15, (CKK.DSA, true)), (0x16, (CKK.DSA, true)),
   (0x1041, (CKK.EC, false)), (0x1057, (CKK.EC_EDWARDS, false))]

def asymSigMech (m : Nat) : Option (Nat × Bool) := tblFind asymSigMechTbl m

/-- asymmetric encryption mechanisms (RSA only): PKCS, X_509, OAEP -/
def asymEncMechTbl : List (Nat × Nat) := [(0x1, CKK.RSA), (0x3, CKK.RSA), (0x9, CKK.RSA)]

def asymEncMech (m : Nat) : Option Nat := tblFind asymEncMechTbl m

def digestMech (m : Nat) : Option Nat :=
  if m == 0x210 then some 16 else if m == 0x220 then some 20 else if m == 0x255 then some 28
  else if m == 0x250 then some 32 else if m == 0x260 then some 48 else if m == 0x270 then some 64 else none

/-- mechanism parameter as far as the model looks at it -/
structure MParam where
  present : Bool := false
  len : Nat := 0                 -- ulParameterLen (raw) / IV length
  kind : String := ""            -- "" raw, "gcm", "ctr", "oaep", "pss", …
  nums : List Nat := []          -- gcm: [ivLen, aadLen, tagBits]; ctr: [counterBits]; pss: [hash, mgf, sLen]; oaep: [hash, mgf]
  raw : List Bytes := []         -- byte-string arguments: raw parameter / IV; ecdh: [public data]; str: [data]; cbcd: [iv, data]
  deriving Repr, DecidableEq, Inhabited

/-! ### key sizes seen by the operations -/

def bytesLenOf (o : Attrs) (ty : Nat) : Nat :=
  match getA o ty with
  | some (.bytes v _) => v.length
  | _ => 0

/-- length of the value without leading zero bytes (`ByteString` → BIGNUM byte size) -/
def sigBytes (v : Bytes) : Nat := (bitsOf v + 7) / 8

/-- `getOutputLength()` of the key behind a sign / decrypt / encrypt operation -/
def keyOutputLen (o : Attrs) : Nat :=
  let kt := getULongD o CKA.KEY_TYPE 0xFFFFFFFF
  if kt == CKK.RSA then
    (match getA o 0x120 with | some (.bytes v _) => sigBytes v | _ => (getULongD o 0x121 (getULongD o 0xFFFF0121 0) + 7) / 8)
  else if kt == CKK.DSA then
    (match getA o 0x131 with | some (.bytes v _) => 2 * sigBytes v | _ => 0)
  else if kt == CKK.EC then
    -- DER OID of the curve: P-256 / P-384 / P-521
    (match getA o 0x180 with
     | some (.bytes v _) => if v == [0x06,0x08,0x2A,0x86,0x48,0xCE,0x3D,0x03,0x01,0x07] then 64
                            else if v == [0x06,0x05,0x2B,0x81,0x04,0x00,0x22] then 96
                            else if v == [0x06,0x05,0x2B,0x81,0x04,0x00,0x23] then 132
                            -- twice the byte length of the group ORDER (not of the field): secp224r1, secp160r1 (161-bit order), secp224k1 (225-bit order), secp256k1, secp192k1
                            else if v == [0x06,0x05,0x2B,0x81,0x04,0x00,0x21] then 56
                            else if v == [0x06,0x05,0x2B,0x81,0x04,0x00,0x08] then 42
                            else if v == [0x06,0x05,0x2B,0x81,0x04,0x00,0x20] then 58
                            else if v == [0x06,0x05,0x2B,0x81,0x04,0x00,0x0A] then 64
                            else if v == [0x06,0x05,0x2B,0x81,0x04,0x00,0x1F] then 48 else 0
     | _ => 0)
  else if kt == CKK.EC_EDWARDS then
    (match getA o 0x180 with
     | some (.bytes v _) => if v == [0x06,0x03,0x2B,0x65,0x70] || v == [0x13,0x0C,0x65,0x64,0x77,0x61,0x72,0x64,0x73,0x32,0x35,0x35,0x31,0x39] then 64
                            else if v == [0x06,0x03,0x2B,0x65,0x71] || v == [0x13,0x0A,0x65,0x64,0x77,0x61,0x72,0x64,0x73,0x34,0x34,0x38] then 114 else 0
     | _ => 0)
  else 0

/-! ### starting an operation -/

inductive InitKind | encrypt | decrypt | sign | verify
  deriving DecidableEq, Repr, Inhabited

def InitKind.usage : InitKind → Nat
  | .encrypt => CKA.ENCRYPT | .decrypt => CKA.DECRYPT | .sign => CKA.SIGN | .verify => CKA.VERIFY

def InitKind.op : InitKind → OpKind
  | .encrypt => .encrypt | .decrypt => .decrypt | .sign => .sign | .verify => .verify

/-- return codes that the part of an `*Init` behind the modelled guards may still produce (parameter checks of
    individual mechanisms, key material the primitive rejects); the model takes them from the observation -/
def lateInitErrors : List RV :=
  [CKR.MECHANISM_INVALID, CKR.GENERAL_ERROR, CKR.ARGUMENTS_BAD, CKR.MECHANISM_PARAM_INVALID, CKR.KEY_SIZE_RANGE, 0x2]

def setOp (s : State) (h : Nat) (ss : Sess) (k : OpKind) (d : OpDetail) : State :=
  { s with handles := s.handles.setSess h { ss with op := k, opd := d, findRes := [] } }

def resetOp (s : State) (h : Nat) (ss : Sess) : State := setOp s h ss .none {}

/-- the guards common to `SymEncryptInit`, `AsymEncryptInit`, `SymDecryptInit`, `AsymDecryptInit`, `MacSignInit`,
    `AsymSignInit`, `MacVerifyInit`, `AsymVerifyInit`, in the order of the code -/
def initGuards (s : State) (kind : InitKind) (h mech keyH : Nat) : Except RV (Sess × Tok × Obj) :=
  match s.handles.getSess h with
  | none => .error CKR.SESSION_HANDLE_INVALID
  | some ss =>
    if ss.op != .none then .error CKR.OPERATION_ACTIVE else
    match findTok s.slots ss.slot with
    | none => .error CKR.GENERAL_ERROR
    | some t =>
      match resolveObj s keyH with
      | none => .error CKR.OBJECT_HANDLE_INVALID
      | some (_, key) =>
        let acc := Gen.haveRead (stateOf t ss.rw) key.onToken key.isPriv
        if acc != CKR.OK then .error acc
        else if !getBoolD key.attrs kind.usage false then .error CKR.KEY_FUNCTION_NOT_PERMITTED
        else if !mechPermitted s.mechCfg key.attrs mech then .error CKR.MECHANISM_INVALID
        else .ok (ss, t, key)

/-- is this mechanism dispatched to the symmetric / MAC branch (`isSymMechanism`, `isMacMechanism`)? -/
def isSymMechanism (m : Nat) : Bool := (symMech m).isSome
def isMacMechanism (m : Nat) : Bool := (macMech m).isSome

/-- the end of an `*Init`: a late error of the primitive (observed) or the operation becomes active -/
def startOp (s : State) (h : Nat) (ss : Sess) (k : OpKind) (late : Option RV) (d : OpDetail) : State × Resp :=
  match late with
  | some e => rOnly s e
  | none => (setOp s h ss k d, { rv := CKR.OK })

def lateOf (oRv : RV) : Option RV := if lateInitErrors.contains oRv then some oRv else none

/-- C_EncryptInit / C_DecryptInit / C_SignInit / C_VerifyInit.  `oRv`: observed return code, used only behind the guards. -/
def stepOpInit (s : State) (kind : InitKind) (h mech : Nat) (p : MParam) (keyH : Nat) (oRv : RV) : State × Resp :=
  match initGuards s kind h mech keyH with
  | .error rv => rOnly s rv
  | .ok (ss, _, key) =>
    let kt := getULongD key.attrs CKA.KEY_TYPE 0x80000000
    let start (d : OpDetail) : State × Resp := startOp s h ss kind.op (lateOf oRv) { d with mech := mech, keyOid := key.oid }
    match kind with
    | .encrypt | .decrypt =>
      (match symMech mech with
       | some (kts, bs, mode, pad) =>
         if !kts.contains kt then rOnly s CKR.KEY_TYPE_INCONSISTENT
         else
           let tag := if mode == .gcm then (p.nums.getD 2 0) / 8 else 0
           let lim := if mode == .ctr then
                        (let bits := p.nums.getD 0 0
                         -- bytes until the counter field wraps: (2^bits − counter value) · 16, counter value observed in nums[1]
                         some ((2 ^ bits - (p.nums.getD 1 0) % 2 ^ bits) * 16))
                      else none
           start { sym := some { encrypt := kind == .encrypt, bs := bs, mode := mode, padding := pad, tagBytes := tag, ctrLimit := lim },
                   multi := true, single := true }
       | none =>
         match asymEncMech mech with
         | some akt =>
           if kt != akt then rOnly s CKR.KEY_TYPE_INCONSISTENT
           else start { outLen := keyOutputLen key.attrs, multi := false, single := true, rawRsa := mech == 0x3,
                        reauth := kind == .decrypt && getBoolD key.attrs CKA.ALWAYS_AUTHENTICATE false }
         | none => rOnly s CKR.MECHANISM_INVALID)
    | .sign | .verify =>
      (match macMech mech with
       | some (kts, _, macLen) =>
         if !kts.contains kt then rOnly s CKR.KEY_TYPE_INCONSISTENT
         else start { outLen := macLen, multi := true, single := true }
       | none =>
         match asymSigMech mech with
         | some (akt, multi) =>
           -- the arms validate PSS parameters (ARGUMENTS_BAD) before the key type is compared
           if oRv == CKR.ARGUMENTS_BAD then rOnly s oRv
           else if kt != akt then rOnly s CKR.KEY_TYPE_INCONSISTENT
           else start { outLen := keyOutputLen key.attrs, multi := multi, single := true, rawRsa := mech == 0x3,
                        reauth := kind == .sign && getBoolD key.attrs CKA.ALWAYS_AUTHENTICATE false }
         | none => rOnly s CKR.MECHANISM_INVALID)

def stepDigestInit (s : State) (h mech : Nat) (oRv : RV) : State × Resp :=
  match s.handles.getSess h with
  | none => rOnly s CKR.SESSION_HANDLE_INVALID
  | some ss =>
    if ss.op != .none then rOnly s CKR.OPERATION_ACTIVE
    else if !(supportedMechs s.mechCfg).contains mech then rOnly s CKR.MECHANISM_INVALID
    else match digestMech mech with
      | none => rOnly s CKR.MECHANISM_INVALID
      | some len =>
        if oRv == CKR.MECHANISM_INVALID || oRv == CKR.GENERAL_ERROR then rOnly s oRv      -- the primitive is not available (e.g. MD5 in FIPS mode)
        else (setOp s h ss .digest { outLen := len, mech := mech }, { rv := CKR.OK })

/-! ### the output-length protocol -/

/-- outcome of "report / check the buffer / produce": `cap = none` is a NULL output pointer -/
def lenProto (s : State) (h : Nat) (ss : Sess) (need : Nat) (cap : Option Nat) (produce : State × Resp) : State × Resp :=
  match cap with
  | none => (s, { rv := CKR.OK, nums := [need] })
  | some c => if c < need then (s, { rv := CKR.BUFFER_TOO_SMALL, nums := [need] }) else produce

/-- bytes an update returns (`EVP_EncryptUpdate` / `EVP_DecryptUpdate`) for `n` = buffered + new bytes -/
def updOut (c : Cipher) (n inLen : Nat) : Nat :=
  if inLen == 0 then 0
  else match c.mode with
    | .ecb | .cbc =>
      if c.encrypt || !c.padding then (n / c.bs) * c.bs
      else ((n - 1) / c.bs) * c.bs          -- decryption with padding holds the last block back
    | .ctr => inLen
    | .gcm => if c.encrypt then inLen else 0    -- authenticated decryption returns nothing before the tag is checked

def isBlock (c : Cipher) : Bool := c.mode == .ecb || c.mode == .cbc

def ctrOk (c : Cipher) (inLen : Nat) : Bool :=
  match c.ctrLimit with
  | none => true
  | some l => inLen ≤ l

def ctrUse (c : Cipher) (inLen : Nat) : Cipher :=
  { c with ctrLimit := c.ctrLimit.map (· - inLen) }

/-- result of an operation that ends (`resetOp`) with `rv` and an observed output of `n` bytes -/
def finishOp (s : State) (h : Nat) (ss : Sess) (rv : RV) (n : Nat) (oData : Option Bytes) : State × Resp :=
  (resetOp s h ss, { rv := rv, nums := if rv == CKR.OK then [n] else [], vals := if rv == CKR.OK then [oData] else [] })

/-- single-part C_Encrypt / C_Decrypt.  `oRv`, `oLen`, `oData`: observation (used for what the primitive decides). -/
def stepCrypt (s : State) (enc : Bool) (h : Nat) (inLen : Option Nat) (cap : Option Nat) (oRv : RV) (oLen : Nat) (oData : Option Bytes) :
    State × Resp :=
  match s.handles.getSess h with
  | none => rOnly s CKR.SESSION_HANDLE_INVALID
  | some ss =>
    match inLen with
    | none => (resetOp s h ss, { rv := CKR.ARGUMENTS_BAD })          -- NULL data pointer: the operation is reset first
    | some n =>
      if ss.op != (if enc then OpKind.encrypt else OpKind.decrypt) then rOnly s CKR.OPERATION_NOT_INITIALIZED else
      match ss.opd.sym with
      | some c =>
        if !ss.opd.single then (resetOp s h ss, { rv := CKR.OPERATION_NOT_INITIALIZED })
        else if enc then
          let rem := n % c.bs
          if isBlock c && !c.padding && rem != 0 then (resetOp s h ss, { rv := CKR.DATA_LEN_RANGE })
          else if !ctrOk c n then (resetOp s h ss, { rv := CKR.DATA_LEN_RANGE })
          else
            let maxSize := if isBlock c then (if rem != 0 then n + c.bs - rem else if c.padding then n + c.bs else n) else n + c.tagBytes
            lenProto s h ss maxSize cap
              (if oRv == CKR.GENERAL_ERROR then (resetOp s h ss, { rv := oRv }) else finishOp s h ss CKR.OK maxSize oData)
        else
          if isBlock c && n % c.bs != 0 then (resetOp s h ss, { rv := CKR.ENCRYPTED_DATA_LEN_RANGE })
          else if !ctrOk c n then (resetOp s h ss, { rv := CKR.ENCRYPTED_DATA_LEN_RANGE })
          else
            lenProto s h ss n cap
              (if oRv == CKR.GENERAL_ERROR then (resetOp s h ss, { rv := oRv })     -- bad padding / authentication failure
               else
                 -- produced length: exact where the mode determines it, else bounded
                 let exact : Option Nat := match c.mode with
                   | .ecb | .cbc => if c.padding then none else some n
                   | .ctr => some n
                   | .gcm => if n ≥ c.tagBytes then some (n - c.tagBytes) else none
                 let ok : Bool := match exact with
                   | some e => oLen == e
                   | none => (c.mode != .gcm) && decide (n ≥ c.bs) && decide (oLen + c.bs ≥ n) && decide (oLen < n)
                 if ok then finishOp s h ss CKR.OK oLen oData else finishOp s h ss CKR.OK (exact.getD n) oData)
      | none =>
        -- asymmetric
        if !ss.opd.single then (resetOp s h ss, { rv := CKR.OPERATION_NOT_INITIALIZED })
        else if !enc && ss.opd.reauth then (resetOp s h ss, { rv := CKR.USER_NOT_LOGGED_IN })
        else
          let size := ss.opd.outLen
          lenProto s h ss size cap
            (if enc && ss.opd.rawRsa && n > size then (resetOp s h ss, { rv := CKR.DATA_LEN_RANGE })
             else if oRv == CKR.GENERAL_ERROR then (resetOp s h ss, { rv := oRv })
             else if enc then finishOp s h ss CKR.OK size oData
             else finishOp s h ss CKR.OK (if oLen ≤ size then oLen else size) oData)

/-- C_EncryptUpdate / C_DecryptUpdate -/
def stepCryptUpdate (s : State) (enc : Bool) (h : Nat) (inLen : Option Nat) (cap : Option Nat) (oRv : RV) (oData : Option Bytes) : State × Resp :=
  match s.handles.getSess h with
  | none => rOnly s CKR.SESSION_HANDLE_INVALID
  | some ss =>
    match inLen with
    | none => (resetOp s h ss, { rv := CKR.ARGUMENTS_BAD })
    | some n =>
      if ss.op != (if enc then OpKind.encrypt else OpKind.decrypt) then rOnly s CKR.OPERATION_NOT_INITIALIZED else
      match ss.opd.sym with
      | none => rOnly s CKR.FUNCTION_NOT_SUPPORTED
      | some c =>
        if !ss.opd.multi then (resetOp s h ss, { rv := CKR.OPERATION_NOT_INITIALIZED })
        else
          let total := n + c.buffered
          let maxSize := if isBlock c then
                           (if enc then (total / c.bs) * c.bs
                            else ((total - (if c.padding && total ≥ 1 then 1 else 0)) / c.bs) * c.bs)
                         else total
          if !ctrOk c n then (resetOp s h ss, { rv := if enc then CKR.DATA_LEN_RANGE else CKR.ENCRYPTED_DATA_LEN_RANGE })
          else
            lenProto s h ss maxSize cap
              (if oRv == CKR.GENERAL_ERROR then (resetOp s h ss, { rv := oRv })
               else
                 let out := updOut c total n
                 let c' := ctrUse { c with buffered := total - out } n
                 (setOp s h ss ss.op { ss.opd with sym := some c', single := ss.opd.single }, { rv := CKR.OK, nums := [out], vals := [oData] }))

/-- C_EncryptFinal / C_DecryptFinal -/
def stepCryptFinal (s : State) (enc : Bool) (h : Nat) (cap : Option Nat) (oRv : RV) (oLen : Nat) (oData : Option Bytes) : State × Resp :=
  match s.handles.getSess h with
  | none => rOnly s CKR.SESSION_HANDLE_INVALID
  | some ss =>
    if ss.op != (if enc then OpKind.encrypt else OpKind.decrypt) then rOnly s CKR.OPERATION_NOT_INITIALIZED else
    match ss.opd.sym with
    | none => rOnly s CKR.FUNCTION_NOT_SUPPORTED
    | some c =>
      if !ss.opd.multi then (resetOp s h ss, { rv := CKR.OPERATION_NOT_INITIALIZED })
      else if enc then
        let rem := c.buffered + c.tagBytes
        if isBlock c && rem % c.bs != 0 && !c.padding then (resetOp s h ss, { rv := CKR.DATA_LEN_RANGE })
        else
          let size := if isBlock c then (if c.padding then ((rem + c.bs) / c.bs) * c.bs else rem) else rem
          lenProto s h ss size cap
            (if oRv == CKR.GENERAL_ERROR then (resetOp s h ss, { rv := oRv }) else finishOp s h ss CKR.OK size oData)
      else
        let rem := c.buffered
        if isBlock c && rem % c.bs != 0 then (resetOp s h ss, { rv := CKR.ENCRYPTED_DATA_LEN_RANGE })
        else
          let size := if isBlock c then rem - (if c.padding && rem ≥ 1 then 1 else 0) else rem
          lenProto s h ss size cap
            (if oRv == CKR.GENERAL_ERROR then (resetOp s h ss, { rv := oRv })
             else
               let exact : Option Nat := match c.mode with
                 | .ecb | .cbc => if c.padding then none else some 0
                 | .ctr => some 0
                 | .gcm => if rem ≥ c.tagBytes then some (rem - c.tagBytes) else none
               let ok : Bool := match exact with
                 | some e => oLen == e
                 | none => c.mode != .gcm && rem == c.bs && decide (oLen < c.bs)
               if ok then finishOp s h ss CKR.OK oLen oData else finishOp s h ss CKR.OK (exact.getD 0) oData)

/-- C_Sign / C_Digest (single part) -/
def stepSignLike (s : State) (kind : OpKind) (h : Nat) (inLen : Option Nat) (cap : Option Nat) (oRv : RV) (oData : Option Bytes) : State × Resp :=
  match inLen with
  | none => rOnly s CKR.ARGUMENTS_BAD               -- NULL data: refused before anything else, the operation stays
  | some n =>
    match s.handles.getSess h with
    | none => rOnly s CKR.SESSION_HANDLE_INVALID
    | some ss =>
      if ss.op != kind then rOnly s CKR.OPERATION_NOT_INITIALIZED
      else if kind == .sign && !ss.opd.single then (resetOp s h ss, { rv := CKR.OPERATION_NOT_INITIALIZED })
      else if kind == .sign && ss.opd.reauth then (resetOp s h ss, { rv := CKR.USER_NOT_LOGGED_IN })
      else
        lenProto s h ss ss.opd.outLen cap
          (if kind == .sign && ss.opd.rawRsa && n > ss.opd.outLen then (resetOp s h ss, { rv := CKR.DATA_LEN_RANGE })
           else if oRv == CKR.GENERAL_ERROR then (resetOp s h ss, { rv := oRv })
           else finishOp s h ss CKR.OK ss.opd.outLen oData)

/-- C_SignUpdate / C_VerifyUpdate / C_DigestUpdate -/
def stepUpdateLike (s : State) (kind : OpKind) (h : Nat) (inLen : Option Nat) (oRv : RV) : State × Resp :=
  match inLen with
  | none => rOnly s CKR.ARGUMENTS_BAD
  | some _ =>
    match s.handles.getSess h with
    | none => rOnly s CKR.SESSION_HANDLE_INVALID
    | some ss =>
      if ss.op != kind then rOnly s CKR.OPERATION_NOT_INITIALIZED
      else if kind == .digest then
        (if oRv == CKR.GENERAL_ERROR then (resetOp s h ss, { rv := oRv }) else (s, { rv := CKR.OK }))
      else if !ss.opd.multi then (resetOp s h ss, { rv := CKR.OPERATION_NOT_INITIALIZED })
      else if kind == .sign && ss.opd.reauth then (resetOp s h ss, { rv := CKR.USER_NOT_LOGGED_IN })
      else if oRv == CKR.GENERAL_ERROR then (resetOp s h ss, { rv := oRv })
      else (setOp s h ss ss.op { ss.opd with single := false }, { rv := CKR.OK })

/-- C_DigestKey: the key value is fed to the running digest.  With MD5 (the one digest outside the SHA whitelist) the key must be
    extractable and not sensitive. -/
def stepDigestKey (s : State) (h keyH : Nat) (oRv : RV) : State × Resp :=
  match s.handles.getSess h with
  | none => rOnly s CKR.SESSION_HANDLE_INVALID
  | some ss =>
    if ss.op != .digest then rOnly s CKR.OPERATION_NOT_INITIALIZED else
    match findTok s.slots ss.slot with
    | none => rOnly s CKR.GENERAL_ERROR
    | some t =>
      match resolveObj s keyH with
      | none => rOnly s CKR.KEY_HANDLE_INVALID
      | some (_, key) =>
        if Gen.haveRead (stateOf t ss.rw) key.onToken key.isPriv != CKR.OK then rOnly s CKR.GENERAL_ERROR
        else if ss.opd.mech == 0x210 && (!getBoolD key.attrs CKA.EXTRACTABLE false || getBoolD key.attrs CKA.SENSITIVE false) then
          rOnly s CKR.KEY_INDIGESTIBLE
        else if (getA key.attrs CKA.VALUE).isNone then rOnly s CKR.KEY_INDIGESTIBLE
        else if oRv == CKR.GENERAL_ERROR then (resetOp s h ss, { rv := oRv })
        else (s, { rv := CKR.OK })

/-- C_SignFinal / C_DigestFinal -/
def stepFinalLike (s : State) (kind : OpKind) (h : Nat) (cap : Option Nat) (oRv : RV) (oData : Option Bytes) : State × Resp :=
  match s.handles.getSess h with
  | none => rOnly s CKR.SESSION_HANDLE_INVALID
  | some ss =>
    if ss.op != kind then rOnly s CKR.OPERATION_NOT_INITIALIZED
    -- a single-part-only mechanism cannot be finalised: the call fails and ends the operation (as C_SignUpdate does)
    else if kind == .sign && !ss.opd.multi then (resetOp s h ss, { rv := CKR.OPERATION_NOT_INITIALIZED })
    else if kind == .sign && ss.opd.reauth then (resetOp s h ss, { rv := CKR.USER_NOT_LOGGED_IN })
    else
      lenProto s h ss ss.opd.outLen cap
        (if oRv == CKR.GENERAL_ERROR then (resetOp s h ss, { rv := oRv }) else finishOp s h ss CKR.OK ss.opd.outLen oData)

/-- C_Verify / C_VerifyFinal: the answer of the primitive (OK / SIGNATURE_INVALID) is observed; everything before it is computed -/
def stepVerify (s : State) (single : Bool) (h : Nat) (inLen : Option Nat) (sigLen : Option Nat) (oRv : RV) : State × Resp :=
  match inLen, sigLen with
  | none, _ => rOnly s CKR.ARGUMENTS_BAD
  | _, none => rOnly s CKR.ARGUMENTS_BAD
  | some n, some sl =>
    match s.handles.getSess h with
    | none => rOnly s CKR.SESSION_HANDLE_INVALID
    | some ss =>
      if ss.op != .verify then rOnly s CKR.OPERATION_NOT_INITIALIZED
      else if !single && !ss.opd.multi then (resetOp s h ss, { rv := CKR.OPERATION_NOT_INITIALIZED })
      else if single && !ss.opd.single then (resetOp s h ss, { rv := CKR.OPERATION_NOT_INITIALIZED })
      else if sl != ss.opd.outLen then (resetOp s h ss, { rv := CKR.SIGNATURE_LEN_RANGE })
      else if single && ss.opd.rawRsa && n > ss.opd.outLen then (resetOp s h ss, { rv := CKR.DATA_LEN_RANGE })
      else (resetOp s h ss, { rv := if oRv == CKR.OK then CKR.OK else if oRv == CKR.GENERAL_ERROR then oRv else CKR.SIGNATURE_INVALID })

end Shm

namespace Shm

/-! ### key generation -/

/-- C_GenerateKey mechanisms: (class, key type) -/
def genKeyMech (m : Nat) : Option (Nat × Nat) :=
  if m == 0x2000 then some (CKO.DOMAIN_PARAMETERS, CKK.DSA)
  else if m == 0x2001 then some (CKO.DOMAIN_PARAMETERS, CKK.DH)
  else if m == 0x120 then some (CKO.SECRET_KEY, CKK.DES)
  else if m == 0x130 then some (CKO.SECRET_KEY, CKK.DES2)
  else if m == 0x131 then some (CKO.SECRET_KEY, CKK.DES3)
  else if m == 0x1080 then some (CKO.SECRET_KEY, CKK.AES)
  else if m == 0x350 then some (CKO.SECRET_KEY, CKK.GENERIC)
  else none

def genPairMech (m : Nat) : Option Nat :=
  if m == 0x0 then some CKK.RSA else if m == 0x10 then some CKK.DSA else if m == 0x20 then some CKK.DH
  else if m == 0x1040 then some CKK.EC else if m == 0x1055 then some CKK.EC_EDWARDS else none

def ulongEntry (ty v : Nat) : TEntry := { ty := ty, val := some (ulongLE v), len := 8 }
def boolEntry (ty : Nat) (b : Bool) : TEntry := { ty := ty, val := some [if b then 1 else 0], len := 1 }

/-- attributes the `generate*` functions write after `CreateObject(OBJECT_OP_GENERATE)` -/
def postGenerate (mech : Nat) (secretOrPrivate : Bool) (o : Attrs) : Attrs :=
  let o1 := setA (setA o CKA.LOCAL (.bool true)) CKA.KEY_GEN_MECHANISM (.ulong mech)
  if secretOrPrivate then
    setA (setA o1 CKA.ALWAYS_SENSITIVE (.bool (getBoolD o1 CKA.SENSITIVE false)))
      CKA.NEVER_EXTRACTABLE (.bool (!getBoolD o1 CKA.EXTRACTABLE false))
  else o1

def markUnk (o : Attrs) (tys : List Nat) : Attrs := tys.foldl (fun a t => if (getA a t).isSome then setA a t .unk else a) o

/-- errors the key-type specific part of `generate*` reports before the object is created (from the observation) -/
def preGenErrors : List RV := [CKR.TEMPLATE_INCOMPLETE, CKR.ATTRIBUTE_VALUE_INVALID, CKR.GENERAL_ERROR, 0x130 /- DOMAIN_PARAMS_INVALID -/, CKR.FUNCTION_FAILED, CKR.KEY_SIZE_RANGE]

/-- the tail of `stepGenKey`: the template engine decides, then the object is registered -/
def genKeyFinish (s : State) (ss : Sess) (h mech : Nat) (tpl : Template) (t : Tok) (cls kt dkt : Nat) (onToken isPriv : Bool) (keyLen : Nat) : State × Resp :=
  if tpl.length > 28 then rOnly s CKR.TEMPLATE_INCONSISTENT
  else
    let keyTpl : Template := [ulongEntry CKA.CLASS cls, boolEntry CKA.TOKEN onToken, boolEntry CKA.PRIVATE isPriv, ulongEntry CKA.KEY_TYPE kt] ++
      tpl.filter fun e => !([CKA.CLASS, CKA.TOKEN, CKA.PRIVATE, CKA.KEY_TYPE, CKA.CHECK_VALUE].contains e.ty)
    match findClass cls kt 0 with
    | none => rOnly s CKR.ATTRIBUTE_VALUE_INVALID
    | some cd =>
      match saveTemplate cd (initAttrs cd) (reorderTpl keyTpl) OP.GENERATE isPriv t.soIn CKR.OK with
      | .error rv => rOnly s rv
      | .ok attrs =>
        let a1 := postGenerate mech true attrs
        let a2 := setA a1 CKA.VALUE .unk
        let a3 := if tpl.any (·.ty == CKA.CHECK_VALUE) then a2 else setA a2 CKA.CHECK_VALUE .unk
        -- the byte length of the value is what the operations need later
        let vlen := if dkt == CKK.DES then 8 else if dkt == CKK.DES2 then 16 else if dkt == CKK.DES3 then 24 else keyLen
        let a4 := setA a3 0xFFFF0161 (.ulong vlen)        -- model-internal: not an attribute of any class, invisible to the API
        let r := addObject s ss.slot h onToken isPriv a4
        (r.1, { rv := CKR.OK, nums := [r.2] })

/-- C_GenerateKey for secret keys (domain parameter generation is taken from the observation) -/
def stepGenKey (s : State) (h mech : Nat) (tpl : Template) (oRv : RV) : State × Resp :=
  match s.handles.getSess h with
  | none => rOnly s CKR.SESSION_HANDLE_INVALID
  | some ss =>
    if !(supportedMechs s.mechCfg).contains mech then rOnly s CKR.MECHANISM_INVALID else
    match genKeyMech mech with
    | none => rOnly s CKR.MECHANISM_INVALID
    | some (dcls, dkt) =>
      let cls := (tplULong tpl CKA.CLASS).getD dcls
      let kt := (tplULong tpl CKA.KEY_TYPE).getD dkt
      let onToken := (tplBool tpl CKA.TOKEN).getD false
      let isPriv := (tplBool tpl CKA.PRIVATE).getD true
      if cls != CKO.SECRET_KEY && cls != CKO.DOMAIN_PARAMETERS then rOnly s CKR.ATTRIBUTE_VALUE_INVALID
      else if cls != dcls || kt != dkt then rOnly s CKR.TEMPLATE_INCONSISTENT
      else match findTok s.slots ss.slot with
        | none => rOnly s CKR.GENERAL_ERROR
        | some t =>
          let acc := Gen.haveWrite (stateOf t ss.rw) onToken isPriv
          if acc != CKR.OK then rOnly s acc
          else if cls == CKO.DOMAIN_PARAMETERS then rOnly s (if oRv == CKR.OK then CKR.FUNCTION_FAILED else oRv)   -- not modelled: only refusals are followed
          else
            -- key-type specific checks of generateAES / generateGeneric / generateDES*
            let vlenBad := tpl.any fun e => e.ty == 0x161 && e.len != 8
            let kcvBad := tpl.any fun e => e.ty == CKA.CHECK_VALUE && e.len > 0
            let keyLen := match tpl.reverse.find? (fun e => e.ty == 0x161 && e.len == 8) with
                          | some e => leToNat ((e.val.getD []).take 8) | none => 0
            let needsLen := dkt == CKK.AES || dkt == CKK.GENERIC
            if needsLen && vlenBad then rOnly s CKR.ATTRIBUTE_VALUE_INVALID
            else if kcvBad then rOnly s CKR.ATTRIBUTE_VALUE_INVALID
            else if needsLen && keyLen == 0 then rOnly s CKR.TEMPLATE_INCOMPLETE
            else if dkt == CKK.AES && keyLen != 16 && keyLen != 24 && keyLen != 32 then rOnly s CKR.ATTRIBUTE_VALUE_INVALID
            else if oRv == CKR.GENERAL_ERROR then rOnly s oRv
            else genKeyFinish s ss h mech tpl t cls kt dkt onToken isPriv keyLen

/-- the tail of `stepGenPair`: both templates go through the template engine, then both objects are registered -/
def genPairFinish (s : State) (ss : Sess) (h mech : Nat) (pubT privT : Template) (t : Tok) (dkt : Nat) (pubTok pubPriv privTok privPriv : Bool) : State × Resp :=
  let skip : List Nat := [CKA.CLASS, CKA.TOKEN, CKA.PRIVATE, CKA.KEY_TYPE] ++ (if dkt == CKK.RSA then [0x122] else [])
  let pubTpl : Template := [ulongEntry CKA.CLASS CKO.PUBLIC_KEY, boolEntry CKA.TOKEN pubTok, boolEntry CKA.PRIVATE pubPriv, ulongEntry CKA.KEY_TYPE dkt] ++
    pubT.filter fun e => !(skip.contains e.ty)
  let privTpl : Template := [ulongEntry CKA.CLASS CKO.PRIVATE_KEY, boolEntry CKA.TOKEN privTok, boolEntry CKA.PRIVATE privPriv, ulongEntry CKA.KEY_TYPE dkt] ++
    privT.filter fun e => !([CKA.CLASS, CKA.TOKEN, CKA.PRIVATE, CKA.KEY_TYPE].contains e.ty)
  match findClass CKO.PUBLIC_KEY dkt 0, findClass CKO.PRIVATE_KEY dkt 0 with
  | some cdPub, some cdPriv =>
    (match saveTemplate cdPub (initAttrs cdPub) pubTpl OP.GENERATE pubPriv t.soIn CKR.OK with
     | .error rv => rOnly s rv
     | .ok pa =>
       match saveTemplate cdPriv (initAttrs cdPriv) privTpl OP.GENERATE privPriv t.soIn CKR.OK with
       | .error rv => ({ s with counter := s.counter + 1 }, { rv := rv })      -- the public key had been created and given a handle; both are gone again, the handle number is used up
       | .ok va =>
         let material : List Nat := [0x120, 0x122, 0x123, 0x124, 0x125, 0x126, 0x127, 0x128, 0x11, 0x181, 0x130, 0x131, 0x132, 0x129]
         let pa1 := markUnk (postGenerate mech false pa) material
         -- the private key gets the curve / domain parameters of the public template
         let ecp := getA pa 0x180
         let va0 := match ecp with | some v => (if (getA va 0x180).isSome then setA va 0x180 (match v with | .bytes b _ => .bytes b privPriv | x => x) else va) | none => va
         let va1 := markUnk (postGenerate mech true va0) material
         let va2 := setA va1 0xFFFF0121 (.ulong (getULongD pa 0x121 0))      -- model-internal on the private key: modulus bits
         let r1 := addObject s ss.slot h pubTok pubPriv pa1
         let r2 := addObject r1.1 ss.slot h privTok privPriv va2
         (r2.1, { rv := CKR.OK, nums := [r1.2, r2.2] }))
  | _, _ => rOnly s CKR.GENERAL_ERROR


/-- C_GenerateKeyPair: guards, then the template engine decides; what the key generator itself refuses is observed -/
def stepGenPair (s : State) (h mech : Nat) (pubT privT : Template) (oRv : RV) : State × Resp :=
  match s.handles.getSess h with
  | none => rOnly s CKR.SESSION_HANDLE_INVALID
  | some ss =>
    if !(supportedMechs s.mechCfg).contains mech then rOnly s CKR.MECHANISM_INVALID else
    match genPairMech mech with
    | none => rOnly s CKR.MECHANISM_INVALID
    | some dkt =>
      let pcls := (tplULong pubT CKA.CLASS).getD CKO.PUBLIC_KEY
      let kt1 := (tplULong pubT CKA.KEY_TYPE).getD dkt
      let pubTok := (tplBool pubT CKA.TOKEN).getD false
      let pubPriv := (tplBool pubT CKA.PRIVATE).getD false
      let vcls := (tplULong privT CKA.CLASS).getD CKO.PRIVATE_KEY
      let kt2 := (tplULong privT CKA.KEY_TYPE).getD kt1
      let privTok := (tplBool privT CKA.TOKEN).getD false
      let privPriv := (tplBool privT CKA.PRIVATE).getD true
      if pcls != CKO.PUBLIC_KEY then rOnly s CKR.ATTRIBUTE_VALUE_INVALID
      else if kt1 != dkt then rOnly s CKR.TEMPLATE_INCONSISTENT
      else if vcls != CKO.PRIVATE_KEY then rOnly s CKR.ATTRIBUTE_VALUE_INVALID
      else if kt2 != dkt then rOnly s CKR.TEMPLATE_INCONSISTENT
      else match findTok s.slots ss.slot with
        | none => rOnly s CKR.GENERAL_ERROR
        | some t =>
          let st := stateOf t ss.rw
          let a1 := Gen.haveWrite st pubTok pubPriv
          let a2 := Gen.haveWrite st privTok privPriv
          if a1 != CKR.OK then rOnly s a1
          else if a2 != CKR.OK then rOnly s a2
          else
            -- what the key generator itself refuses is observed and happens before any object exists; what the TEMPLATES make fail is computed - and when the private
            -- template is the one that fails, the public key had already been created and given a handle (see genPairFinish)
            let r := genPairFinish s ss h mech pubT privT t dkt pubTok pubPriv privTok privPriv
            if preGenErrors.contains oRv && r.2.rv != oRv then rOnly s oRv else r

end Shm
