/-
  The complete machine: the core calls of Step.lean plus the cryptographic and key-generation calls of Ops.lean.
-/
import Shm.Model.Ops
import Shm.Model.Wrap
namespace Shm

/-- observation of an output-producing call: return code, reported length, bytes -/
structure OutObs where
  rv : RV := 0
  len : Nat := 0
  data : Option Bytes := none
  deriving Repr, DecidableEq, Inhabited

inductive OpCall
  | cfgMechs (cfg : String)                                         -- the slots.mechanisms line of the configuration (before C_Initialize)
  | mechList (slot : Nat)
  | opInit (kind : InitKind) (h mech : Nat) (p : MParam) (key : Nat) (oRv : RV)
  | digestInit (h mech : Nat) (oRv : RV)
  | crypt (enc : Bool) (h : Nat) (inLen : Option Nat) (cap : Option Nat) (o : OutObs)
  | cryptUpdate (enc : Bool) (h : Nat) (inLen : Option Nat) (cap : Option Nat) (o : OutObs)
  | cryptFinal (enc : Bool) (h : Nat) (cap : Option Nat) (o : OutObs)
  | sign (h : Nat) (inLen : Option Nat) (cap : Option Nat) (o : OutObs)
  | digest (h : Nat) (inLen : Option Nat) (cap : Option Nat) (o : OutObs)
  | update (kind : OpKind) (h : Nat) (inLen : Option Nat) (oRv : RV)
  | digestKey (h key : Nat) (oRv : RV)
  | signFinal (h : Nat) (cap : Option Nat) (o : OutObs)
  | digestFinal (h : Nat) (cap : Option Nat) (o : OutObs)
  | verify (h : Nat) (inLen sigLen : Option Nat) (oRv : RV)
  | verifyFinal (h : Nat) (sigLen : Option Nat) (oRv : RV)
  | genKey (h mech : Nat) (tpl : Template) (oRv : RV)
  | genPair (h mech : Nat) (pubT privT : Template) (oRv : RV)
  | wrap (h mech : Nat) (p : MParam) (wk key : Nat) (cap : Option Nat) (o : OutObs)
  | unwrap (h mech : Nat) (p : MParam) (uk : Nat) (blob : Option Bytes) (tpl : Template) (oRv : RV)
  | derive (h mech : Nat) (p : MParam) (bk : Nat) (tpl : Template) (oRv : RV)
  deriving Repr, Inhabited

def sortNat (l : List Nat) : List Nat := l.foldr insertAscN []

def stepOp (s : State) (c : OpCall) : State × Resp :=
  match c with
  | .cfgMechs cfg => ({ s with mechCfg := parseMechCfg cfg }, { rv := CKR.OK })
  | c =>
    if !s.initialised then rOnly s CKR.CRYPTOKI_NOT_INITIALIZED else
    match c with
    | .cfgMechs _ => rOnly s CKR.OK
    | .mechList slot =>
      (match findSlot s.slots slot with
       | none => rOnly s CKR.SLOT_ID_INVALID
       | some _ => (s, { rv := CKR.OK, nums := sortNat (supportedMechs s.mechCfg) }))
    | .opInit kind h mech p key oRv => stepOpInit s kind h mech p key oRv
    | .digestInit h mech oRv => stepDigestInit s h mech oRv
    | .crypt enc h i cap o => stepCrypt s enc h i cap o.rv o.len o.data
    | .cryptUpdate enc h i cap o => stepCryptUpdate s enc h i cap o.rv o.data
    | .cryptFinal enc h cap o => stepCryptFinal s enc h cap o.rv o.len o.data
    | .sign h i cap o => stepSignLike s .sign h i cap o.rv o.data
    | .digest h i cap o => stepSignLike s .digest h i cap o.rv o.data
    | .update kind h i oRv => stepUpdateLike s kind h i oRv
    | .digestKey h k oRv => stepDigestKey s h k oRv
    | .signFinal h cap o => stepFinalLike s .sign h cap o.rv o.data
    | .digestFinal h cap o => stepFinalLike s .digest h cap o.rv o.data
    | .verify h i sl oRv => stepVerify s true h i sl oRv
    | .verifyFinal h sl oRv => stepVerify s false h (some 0) sl oRv
    | .genKey h mech tpl oRv => stepGenKey s h mech tpl oRv
    | .genPair h mech p v oRv => stepGenPair s h mech p v oRv
    | .wrap h mech p wk key cap o => stepWrap s h mech p wk key cap o.rv o.len o.data
    | .unwrap h mech p uk blob tpl oRv => stepUnwrap s h mech p uk blob tpl oRv
    | .derive h mech p bk tpl oRv => stepDerive s h mech p bk tpl oRv

inductive AnyCall
  | core (c : Call)
  | op (c : OpCall)
  | restart                 -- the process ends (with or without C_Finalize) and a new one continues on the same token directory
  deriving Repr, Inhabited

/-- a new process: what survives is what is on disk: tokens (PINs, labels) and token objects; nobody is logged in, the library
    is not initialised -/
def stepRestart (s : State) : State × Resp :=
  ({ (stepFinalize { s with initialised := true }).1 with initialised := false }, { rv := CKR.OK })

def stepAny (s : State) : AnyCall → State × Resp
  | .core c => step s c
  | .op c => stepOp s c
  | .restart => stepRestart s

def runAny (s : State) (cs : List AnyCall) : State := cs.foldl (fun s c => (stepAny s c).1) s

end Shm
