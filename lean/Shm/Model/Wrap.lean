/-
  C_WrapKey, C_UnwrapKey, C_DeriveKey (SoftHSM.cpp): the start conditions in the order of the code, and — where the key values are
  known to the model — the VALUE the standard mechanism defines, computed by the reference implementations of Shm/Crypto.
  What the model does not compute (PKCS#8 blobs of private keys, RSA-wrapped blobs, X25519/Ed448, DES) is taken from the observation.
-/
import Shm.Model.Ops
import Shm.Crypto.KeyWrap
import Shm.Crypto.SHA1
import Shm.Crypto.Num
namespace Shm
open Shm.Crypto

namespace CKM
@[reducible] def AES_KEY_WRAP := 0x2109
@[reducible] def AES_KEY_WRAP_PAD := 0x210A
@[reducible] def RSA_PKCS := 0x1
@[reducible] def RSA_PKCS_OAEP := 0x9
@[reducible] def AES_CBC := 0x1082
@[reducible] def AES_CBC_PAD := 0x1085
@[reducible] def DES3_CBC_PAD := 0x136
@[reducible] def DH_PKCS_DERIVE := 0x21
@[reducible] def ECDH1_DERIVE := 0x1050
@[reducible] def DES_ECB_ENCRYPT_DATA := 0x1100
@[reducible] def DES_CBC_ENCRYPT_DATA := 0x1101
@[reducible] def DES3_ECB_ENCRYPT_DATA := 0x1102
@[reducible] def DES3_CBC_ENCRYPT_DATA := 0x1103
@[reducible] def AES_ECB_ENCRYPT_DATA := 0x1104
@[reducible] def AES_CBC_ENCRYPT_DATA := 0x1105
@[reducible] def CONCATENATE_BASE_AND_KEY := 0x360
@[reducible] def CONCATENATE_BASE_AND_DATA := 0x362
@[reducible] def CONCATENATE_DATA_AND_BASE := 0x363
end CKM

def CKR_WRAPPING_KEY_TYPE_INCONSISTENT : RV := 0x115
def CKR_UNWRAPPING_KEY_TYPE_INCONSISTENT : RV := 0xF2

/-- the plaintext VALUE of a secret key, when the model knows it -/
def knownValue (o : Attrs) : Option Bytes :=
  match getA o CKA.VALUE with
  | some (.bytes v _) => some v
  | _ => none

/-- what the symmetric wrapping mechanisms produce for key bytes `kd` under the AES key `kek` -/
def wrapSym (mech : Nat) (p : MParam) (kek kd : Bytes) : Except RV Bytes :=
  let E := aesEncBlock (aesKey kek)
  if mech == CKM.AES_KEY_WRAP then
    let padded := zeroPad8 kd
    if padded.length < 16 then .error CKR.KEY_SIZE_RANGE else .ok (rfc3394Wrap E padded)
  else if mech == CKM.AES_KEY_WRAP_PAD then .ok (rfc5649Wrap E kd)
  else if mech == CKM.AES_CBC_PAD then .ok (cbcEncrypt E ((p.raw.headD []).take 16) (pkcs7Pad 16 kd))
  else if mech == CKM.AES_CBC then
    -- no padding, the caller's IV (the parameter check has made it 16 bytes)
    if kd.length % 16 != 0 then .error CKR.GENERAL_ERROR else .ok (cbcEncrypt E ((p.raw.headD []).take 16) kd)
  else .error CKR.MECHANISM_INVALID

def unwrapSym (mech : Nat) (p : MParam) (kek blob : Bytes) : Except RV Bytes :=
  let D := aesDecBlock (aesKey kek)
  if mech == CKM.AES_KEY_WRAP then (match rfc3394Unwrap D blob with | some k => .ok k | none => .error CKR.GENERAL_ERROR)
  else if mech == CKM.AES_KEY_WRAP_PAD then (match rfc5649Unwrap D blob with | some k => .ok k | none => .error CKR.GENERAL_ERROR)
  else if mech == CKM.AES_CBC_PAD then
    if blob.isEmpty || blob.length % 16 != 0 then .error CKR.GENERAL_ERROR
    else (match pkcs7Unpad 16 (cbcDecrypt D ((p.raw.headD []).take 16) blob) with | some k => .ok k | none => .error CKR.GENERAL_ERROR)
  else .error CKR.MECHANISM_INVALID

def isAesKey (o : Attrs) : Bool := getULongD o CKA.KEY_TYPE 0x80000000 == CKK.AES
def classOf (o : Attrs) : Nat := getULongD o CKA.CLASS 0x80000000

/-- the mechanism / parameter switch at the top of C_WrapKey -/
def wrapParamErr (mech : Nat) (p : MParam) (oRv : RV) : Option RV :=
  if mech == CKM.AES_KEY_WRAP || mech == CKM.AES_KEY_WRAP_PAD || mech == CKM.RSA_PKCS then (if p.present then some CKR.ARGUMENTS_BAD else none)
  else if mech == CKM.RSA_PKCS_OAEP then (if oRv == CKR.ARGUMENTS_BAD || oRv == CKR.MECHANISM_PARAM_INVALID then some oRv else none)
  else if mech == CKM.AES_CBC || mech == CKM.AES_CBC_PAD then (if !(p.present && p.len == 16 && p.kind == "") then some CKR.ARGUMENTS_BAD else none)
  else some CKR.MECHANISM_INVALID

/-- the mechanism / parameter / blob-length switch at the top of C_UnwrapKey -/
def unwrapParamErr (mech : Nat) (p : MParam) (blobLen : Nat) (oRv : RV) : Option RV :=
  if mech == CKM.AES_KEY_WRAP then
    (if blobLen < 24 || blobLen % 8 != 0 then some CKR.WRAPPED_KEY_LEN_RANGE else if p.present then some CKR.ARGUMENTS_BAD else none)
  else if mech == CKM.AES_KEY_WRAP_PAD then
    (if blobLen < 16 || blobLen % 8 != 0 then some CKR.WRAPPED_KEY_LEN_RANGE else if p.present then some CKR.ARGUMENTS_BAD else none)
  else if mech == CKM.RSA_PKCS then none
  else if mech == CKM.RSA_PKCS_OAEP then (if oRv == CKR.ARGUMENTS_BAD || oRv == CKR.MECHANISM_PARAM_INVALID then some oRv else none)
  else if mech == CKM.AES_CBC_PAD then (if !(p.present && p.len == 16 && p.kind == "") then some CKR.ARGUMENTS_BAD else none)
  else if mech == CKM.DES3_CBC_PAD then (if !(p.present && p.len == 8 && p.kind == "") then some CKR.ARGUMENTS_BAD else none)
  else some CKR.MECHANISM_INVALID

/-- the wrapped bytes, when the model can compute them (both keys are secret keys with known values) -/
def wrapComputed (mech : Nat) (p : MParam) (kcls wcls : Nat) (key wk : Attrs) : Option (Except RV Bytes) :=
  if kcls == CKO.SECRET_KEY && wcls == CKO.SECRET_KEY then
    (match knownValue key, knownValue wk with
     | some kd, some kek => if kd.isEmpty then some (.error CKR.KEY_NOT_WRAPPABLE) else some (wrapSym mech p kek kd)
     | _, _ => none)
  else none

/-- the output-length protocol of C_WrapKey around the (computed or observed) blob -/
def wrapOutput (s : State) (cap : Option Nat) (oRv : RV) (oLen : Nat) (oData : Option Bytes) : Option (Except RV Bytes) → State × Resp
  | some (.error e) => rOnly s e
  | some (.ok w) =>
    (match cap with
     | none => (s, { rv := CKR.OK, nums := [w.length] })
     | some c => if c < w.length then (s, { rv := CKR.BUFFER_TOO_SMALL, nums := [w.length] })
                 else (s, { rv := CKR.OK, nums := [w.length], vals := [some w] }))
  | none =>
    -- value not computed: the length protocol is still checked against the reported length
    if oRv != CKR.OK && oRv != CKR.BUFFER_TOO_SMALL then rOnly s oRv
    else (match cap with
      | none => (s, { rv := CKR.OK, nums := [oLen] })
      | some c => if c < oLen then (s, { rv := CKR.BUFFER_TOO_SMALL, nums := [oLen] })
                  else (s, { rv := CKR.OK, nums := [oLen], vals := [oData] }))

/-- does the key satisfy the wrap template?  `some false`: an entry the model can compare differs or is missing; `some true`: all entries compared and
    equal; `none`: the entries the model compares agree, others (byte strings) are left to the observation -/
def wrapTemplateVerdict (tpl : List (Nat × Nat × Bytes)) (key : Attrs) : Option Bool :=
  let det := tpl.filter fun e => e.2.1 == 1 || e.2.1 == 2
  let bad := det.any fun (ty, kind, raw) =>
    match getA key ty with
    | some (.bool b) => !(kind == 1 && raw == [if b then 1 else 0])
    | some (.ulong n) => !(kind == 2 && raw == ulongLE n)
    | some _ => true
    | none => true
  let missing := tpl.any fun e => (getA key e.1).isNone
  if bad || missing then some false else if det.length == tpl.length then some true else none

/-- C_WrapKey.  `o`: observation (used for what is not computed: RSA-wrapped blobs, PKCS#8 of private keys, the WRAP_TEMPLATE comparison) -/
def stepWrap (s : State) (h mech : Nat) (p : MParam) (wkH keyH : Nat) (cap : Option Nat) (oRv : RV) (oLen : Nat) (oData : Option Bytes) : State × Resp :=
  match s.handles.getSess h with
  | none => rOnly s CKR.SESSION_HANDLE_INVALID
  | some ss =>
    match wrapParamErr mech p oRv with
    | some e => rOnly s e
    | none =>
    match findTok s.slots ss.slot with
    | none => rOnly s CKR.GENERAL_ERROR
    | some t =>
    match resolveObj s wkH with
    | none => rOnly s CKR.WRAPPING_KEY_HANDLE_INVALID
    | some (_, wk) =>
      let st := stateOf t ss.rw
      let acc := Gen.haveRead st wk.onToken wk.isPriv
      if acc != CKR.OK then rOnly s acc else
      let wcls := classOf wk.attrs
      let rsaMech := mech == CKM.RSA_PKCS || mech == CKM.RSA_PKCS_OAEP
      if (mech == CKM.AES_KEY_WRAP || mech == CKM.AES_KEY_WRAP_PAD) && wcls != CKO.SECRET_KEY then rOnly s CKR_WRAPPING_KEY_TYPE_INCONSISTENT
      else if rsaMech && wcls != CKO.PUBLIC_KEY then rOnly s CKR_WRAPPING_KEY_TYPE_INCONSISTENT
      else if !rsaMech && !isAesKey wk.attrs then rOnly s CKR_WRAPPING_KEY_TYPE_INCONSISTENT
      else if rsaMech && getULongD wk.attrs CKA.KEY_TYPE 0x80000000 != CKK.RSA then rOnly s CKR_WRAPPING_KEY_TYPE_INCONSISTENT
      else if !getBoolD wk.attrs CKA.WRAP false then rOnly s CKR.KEY_FUNCTION_NOT_PERMITTED
      else if !mechPermitted s.mechCfg wk.attrs mech then rOnly s CKR.MECHANISM_INVALID
      else match resolveObj s keyH with
        | none => rOnly s CKR.KEY_HANDLE_INVALID
        | some (_, key) =>
          let acc2 := Gen.haveRead st key.onToken key.isPriv
          if acc2 != CKR.OK then rOnly s acc2
          else if !getBoolD key.attrs CKA.EXTRACTABLE false then rOnly s CKR.KEY_UNEXTRACTABLE
          else if getBoolD key.attrs 0x210 false && !getBoolD wk.attrs CKA.TRUSTED false then rOnly s CKR.KEY_NOT_WRAPPABLE
          else
            let kcls := classOf key.attrs
            if kcls != CKO.SECRET_KEY && kcls != CKO.PRIVATE_KEY then rOnly s CKR.KEY_NOT_WRAPPABLE
            else if rsaMech && kcls != CKO.SECRET_KEY then rOnly s CKR.KEY_NOT_WRAPPABLE
            else
              -- CKA_WRAP_TEMPLATE of the wrapping key: every entry must be an attribute of the key with the same value.  Boolean and integer entries are
              -- compared here; byte-string entries (compared with the STORED bytes, which are ciphertext for private keys) follow the observation
              let tpl := match getA wk.attrs 0x40000211 with | some (.amap l) => l | _ => []
              let verdict := wrapTemplateVerdict tpl key.attrs
              if verdict == some false then rOnly s CKR.KEY_NOT_WRAPPABLE
              else if verdict == none && oRv == CKR.KEY_NOT_WRAPPABLE then rOnly s CKR.KEY_NOT_WRAPPABLE
              else
                wrapOutput s cap oRv oLen oData (wrapComputed mech p kcls wcls key.attrs wk.attrs)

/-- the template CreateObject sees in C_UnwrapKey / derive*: class, token, private, key type first, then the caller's other entries -/
def keyTemplate (cls kt : Nat) (onToken isPriv : Bool) (tpl : Template) (drop : List Nat) : Template :=
  [ulongEntry CKA.CLASS cls, boolEntry CKA.TOKEN onToken, boolEntry CKA.PRIVATE isPriv, ulongEntry CKA.KEY_TYPE kt] ++
    tpl.filter fun e => !(([CKA.CLASS, CKA.TOKEN, CKA.PRIVATE, CKA.KEY_TYPE] ++ drop).contains e.ty)

/-- attributes of private-key material that the model leaves open -/
def materialTypes : List Nat := [0x120, 0x122, 0x123, 0x124, 0x125, 0x126, 0x127, 0x128, 0x11, 0x181, 0x130, 0x131, 0x132, 0x180, 0x129]

/-- the unwrapped key bytes, when the model can compute them -/
def unwrapKeyBytes (mech : Nat) (p : MParam) (ucls : Nat) (uk : Attrs) (wrapped : Bytes) : Option (Except RV Bytes) :=
  if ucls == CKO.SECRET_KEY then
    (if mech == CKM.DES3_CBC_PAD then none
     else match knownValue uk with
     | some kek => some (unwrapSym mech p kek wrapped)
     | none => none)
  else if ucls == CKO.PRIVATE_KEY then none
  else some (.error CKR_UNWRAPPING_KEY_TYPE_INCONSISTENT)

/-- the tail of C_UnwrapKey: CreateObject(OBJECT_OP_UNWRAP) with the template, then LOCAL / ALWAYS_SENSITIVE / NEVER_EXTRACTABLE := false and the key material -/
def unwrapFinish (s : State) (slot h cls kt : Nat) (onToken isPriv soIn : Bool) (tpl : Template) (kd : Option (Except RV Bytes)) (oRv : RV) : State × Resp :=
  match findClass cls kt 0 with
  | none => rOnly s CKR.ATTRIBUTE_VALUE_INVALID
  | some cd =>
    match saveTemplate cd (initAttrs cd) (reorderTpl (keyTemplate cls kt onToken isPriv tpl [])) OP.UNWRAP isPriv soIn oRv with
    | .error rv => rOnly s rv
    | .ok attrs =>
      let a1 := setA (setA (setA attrs CKA.LOCAL (.bool false)) CKA.ALWAYS_SENSITIVE (.bool false)) CKA.NEVER_EXTRACTABLE (.bool false)
      if cls == CKO.SECRET_KEY then
        let v : AVal := match kd with
          | some (.ok v) => .bytes v isPriv
          | _ => .unk
        let r := addObject s slot h onToken isPriv (setA a1 CKA.VALUE v)
        (r.1, { rv := CKR.OK, nums := [r.2] })
      else
        -- a private key: PKCS#8 decoding is the primitive's; a blob it cannot decode fails the call (observed)
        if oRv == CKR.FUNCTION_FAILED then rOnly s oRv else
        let r := addObject s slot h onToken isPriv (markUnk a1 materialTypes)
        (r.1, { rv := CKR.OK, nums := [r.2] })

/-- C_UnwrapKey -/
def stepUnwrap (s : State) (h mech : Nat) (p : MParam) (ukH : Nat) (blob : Option Bytes) (tpl : Template) (oRv : RV) : State × Resp :=
  match blob with
  | none => rOnly s CKR.ARGUMENTS_BAD
  | some wrapped =>
  match s.handles.getSess h with
  | none => rOnly s CKR.SESSION_HANDLE_INVALID
  | some ss =>
    match unwrapParamErr mech p wrapped.length oRv with
    | some e => rOnly s e
    | none =>
    match findTok s.slots ss.slot with
    | none => rOnly s CKR.GENERAL_ERROR
    | some t =>
    match resolveObj s ukH with
    | none => rOnly s CKR.UNWRAPPING_KEY_HANDLE_INVALID
    | some (_, uk) =>
      let st := stateOf t ss.rw
      let acc := Gen.haveRead st uk.onToken uk.isPriv
      if acc != CKR.OK then rOnly s acc else
      let ucls := classOf uk.attrs
      let ukt := getULongD uk.attrs CKA.KEY_TYPE 0x80000000
      let rsaMech := mech == CKM.RSA_PKCS || mech == CKM.RSA_PKCS_OAEP
      if (mech == CKM.AES_KEY_WRAP || mech == CKM.AES_KEY_WRAP_PAD) && (ucls != CKO.SECRET_KEY || ukt != CKK.AES) then rOnly s CKR_UNWRAPPING_KEY_TYPE_INCONSISTENT
      else if rsaMech && (ucls != CKO.PRIVATE_KEY || ukt != CKK.RSA) then rOnly s CKR_UNWRAPPING_KEY_TYPE_INCONSISTENT
      else if mech == CKM.AES_CBC_PAD && ukt != CKK.AES then rOnly s CKR_WRAPPING_KEY_TYPE_INCONSISTENT
      else if !getBoolD uk.attrs CKA.UNWRAP false then rOnly s CKR.KEY_FUNCTION_NOT_PERMITTED
      else if !mechPermitted s.mechCfg uk.attrs mech then rOnly s CKR.MECHANISM_INVALID
      else match extractObjectInformation tpl with
        | .error rv => rOnly s rv
        | .ok info =>
          if info.cls != CKO.SECRET_KEY && info.cls != CKO.PRIVATE_KEY then rOnly s CKR.ATTRIBUTE_VALUE_INVALID else
          let accW := Gen.haveWrite st info.onToken info.isPriv
          if accW != CKR.OK then rOnly s accW
          else if tpl.length > 28 then rOnly s CKR.TEMPLATE_INCONSISTENT
          else
            -- CKA_UNWRAP_TEMPLATE of the unwrapping key: the comparison is read from the observation
            let hasTpl := match getA uk.attrs 0x40000212 with | some (.amap (_ :: _)) => true | _ => false
            if hasTpl && oRv == CKR.TEMPLATE_INCONSISTENT then rOnly s oRv else
            -- the key bytes
            match unwrapKeyBytes mech p ucls uk.attrs wrapped with
            | some (.error e) => rOnly s e
            | kd' =>
              -- not computed: a refusal of the primitive is taken from the observation
              if kd'.isNone && (oRv == CKR.GENERAL_ERROR || oRv == CKR.WRAPPED_KEY_LEN_RANGE || oRv == CKR.WRAPPED_KEY_INVALID || oRv == CKR.MECHANISM_INVALID) then rOnly s oRv else
              unwrapFinish s ss.slot h info.cls info.keyType info.onToken info.isPriv t.soIn tpl kd' oRv

/-! ### derivation -/

/-- odd parity in the low bit of every byte (`odd_parity[]` of odd.h) -/
def oddParity (b : UInt8) : UInt8 :=
  let hi := b &&& 0xFE
  let ones := (List.range 8).foldl (fun n i => n + ((hi >>> UInt8.ofNat i) &&& 1).toNat) 0
  if ones % 2 == 0 then hi ||| 1 else hi

def isDesType (kt : Nat) : Bool := kt == CKK.DES || kt == CKK.DES2 || kt == CKK.DES3

/-- the byte length the derived key must have: `none` = taken from the secret (concatenation mechanisms without CKA_VALUE_LEN) -/
def deriveLen (kt : Nat) (valueLen : Nat) : Except RV Nat :=
  if kt == CKK.GENERIC then (if valueLen == 0 then .error CKR.TEMPLATE_INCOMPLETE else .ok valueLen)
  else if kt == CKK.DES then (if valueLen != 0 then .error CKR.ATTRIBUTE_READ_ONLY else .ok 8)
  else if kt == CKK.DES2 then (if valueLen != 0 then .error CKR.ATTRIBUTE_READ_ONLY else .ok 16)
  else if kt == CKK.DES3 then (if valueLen != 0 then .error CKR.ATTRIBUTE_READ_ONLY else .ok 24)
  else if kt == CKK.AES then (if valueLen != 16 && valueLen != 24 && valueLen != 32 then .error CKR.ATTRIBUTE_VALUE_INVALID else .ok valueLen)
  else .error CKR.ATTRIBUTE_VALUE_INVALID

/-- cut the secret to the requested length and fix the parity of DES keys.  `fromEnd`: DH/ECDH keep the trailing bytes, the symmetric
    derivations the leading ones -/
def shapeSecret (kt : Nat) (len : Nat) (fromEnd : Bool) (secret : Bytes) : Option Bytes :=
  if len > secret.length then none else
  let cut := if fromEnd then secret.drop (secret.length - len) else secret.take len
  some (if isDesType kt then cut.map oddParity else cut)

/-- the standard key check value: first 3 bytes of the encryption of a zero block (AES); of SHA-1 of the value (generic secrets) -/
def keyCheckValue (kt : Nat) (v : Bytes) : Option Bytes :=
  if kt == CKK.AES then (if v.length == 16 || v.length == 24 || v.length == 32 then some ((aesEncBlock (aesKey v) (List.replicate 16 0)).take 3) else none)
  else if isDesType kt then none
  else some ((sha1 v).take 3)

/-- uncompressed or DER-wrapped P-256 point -/
def parseP256Point (b : Bytes) : Option (Nat × Nat) :=
  let raw := if b.length == 67 && b.take 2 == [0x04, 0x41] then b.drop 2 else b
  if raw.length == 65 && raw.headD 0 == 0x04 then some (bytesToNat ((raw.drop 1).take 32), bytesToNat (raw.drop 33)) else none

def p256Oid : Bytes := [0x06, 0x08, 0x2A, 0x86, 0x48, 0xCE, 0x3D, 0x03, 0x01, 0x07]

/-- the shared secret / derived bytes before shaping; `none`: not computed by the model -/
def deriveSecret (s : State) (mech : Nat) (p : MParam) (bk : Obj) : Option (Except RV Bytes) :=
  if mech == CKM.DH_PKCS_DERIVE then
    (match getA bk.attrs 0x130, getA bk.attrs CKA.VALUE with
     | some (.bytes prime _), some (.bytes x _) =>
       let pub := p.raw.headD []
       let pn := bytesToNat prime
       if pn ≤ 1 then none else
       -- PKCS #3: the secret as a big-endian string of the length of the prime
       some (.ok (natToBytes (modPow (bytesToNat pub) (bytesToNat x) pn) (sigBytesLen prime)))
     | _, _ => none)
  else if mech == CKM.ECDH1_DERIVE then
    (match getA bk.attrs 0x180, getA bk.attrs CKA.VALUE with
     | some (.bytes oid _), some (.bytes d _) =>
       if oid != p256Oid || p.nums.headD 0 != 1 then none else
       match parseP256Point (p.raw.getD 1 []) with
       | none => none
       | some (x, y) =>
         if !P256.onCurve (some (x, y)) then some (.error CKR.GENERAL_ERROR) else
         match P256.mul (bytesToNat d) (some (x, y)) with
         | some (sx, _) => some (.ok (natToBytes sx 32))
         | none => some (.error CKR.GENERAL_ERROR)
     | _, _ => none)
  else if mech == CKM.AES_ECB_ENCRYPT_DATA then
    (match knownValue bk.attrs with
     | some k => let data := p.raw.headD []
                 if data.isEmpty || data.length % 16 != 0 then some (.error CKR.MECHANISM_PARAM_INVALID) else some (.ok (ecbEncrypt (aesEncBlock (aesKey k)) data))
     | none => none)
  else if mech == CKM.AES_CBC_ENCRYPT_DATA then
    (match knownValue bk.attrs with
     | some k => let data := p.raw.getD 1 []
                 if data.isEmpty || data.length % 16 != 0 then some (.error CKR.MECHANISM_PARAM_INVALID) else some (.ok (cbcEncrypt (aesEncBlock (aesKey k)) (p.raw.headD []) data))
     | none => none)
  else if mech == CKM.CONCATENATE_BASE_AND_DATA || mech == CKM.CONCATENATE_DATA_AND_BASE then
    (match knownValue bk.attrs with
     | some k => let data := p.raw.headD []
                 if data.isEmpty then some (.error CKR.MECHANISM_PARAM_INVALID)
                 else some (.ok (if mech == CKM.CONCATENATE_BASE_AND_DATA then k ++ data else data ++ k))
     | none => none)
  else if mech == CKM.CONCATENATE_BASE_AND_KEY then
    (match knownValue bk.attrs, (resolveObj s (p.nums.headD 0)).bind (fun x => knownValue x.2.attrs) with
     | some k, some k2 => some (.ok (k ++ k2))
     | _, _ => none)
  else none
where
  sigBytesLen (v : Bytes) : Nat := (v.dropWhile (· == 0)).length

def isConcat (m : Nat) : Bool := m == CKM.CONCATENATE_DATA_AND_BASE || m == CKM.CONCATENATE_BASE_AND_DATA || m == CKM.CONCATENATE_BASE_AND_KEY

def deriveMechs : List Nat :=
  [CKM.DH_PKCS_DERIVE, CKM.ECDH1_DERIVE, CKM.DES_ECB_ENCRYPT_DATA, CKM.DES_CBC_ENCRYPT_DATA, CKM.DES3_ECB_ENCRYPT_DATA, CKM.DES3_CBC_ENCRYPT_DATA,
   CKM.AES_ECB_ENCRYPT_DATA, CKM.AES_CBC_ENCRYPT_DATA, CKM.CONCATENATE_DATA_AND_BASE, CKM.CONCATENATE_BASE_AND_DATA, CKM.CONCATENATE_BASE_AND_KEY]

/-- the CKA_VALUE of the derived key: the mechanism's secret, cut to the requested length, parity-adjusted for DES; `.unk` where the model does
    not compute it.  Stored encrypted iff the new key is private. -/
def deriveValue (s : State) (mech : Nat) (p : MParam) (bk : Obj) (kt valueLen : Nat) (isPriv : Bool) : AVal :=
  let fromEnd := mech == CKM.DH_PKCS_DERIVE || mech == CKM.ECDH1_DERIVE
  match deriveSecret s mech p bk with
  | some (.ok secret) =>
    let len : Option Nat :=
      if isConcat mech && valueLen == 0 then some secret.length
      else match deriveLen kt valueLen with | .ok n => some n | .error _ => none
    (match len.bind (fun n => shapeSecret kt n fromEnd secret) with
     | some v => .bytes v isPriv
     | none => .unk)
  | _ => .unk

/-- CKA_SENSITIVE / CKA_EXTRACTABLE / CKA_ALWAYS_SENSITIVE / CKA_NEVER_EXTRACTABLE of a derived key (PKCS#11 2.31 and the derive* helpers):
    the history attributes are true only if they were true of the base key AND the new key is sensitive / not extractable -/
def deriveFlags (mech : Nat) (base : Attrs) (other : Option Attrs) (a : Attrs) : Attrs :=
  if mech == CKM.CONCATENATE_BASE_AND_KEY then
    (match other with
     | none => markUnk a [CKA.ALWAYS_SENSITIVE, CKA.NEVER_EXTRACTABLE, CKA.SENSITIVE, CKA.EXTRACTABLE]
     | some ok =>
       -- PKCS#11 2.31.3: sensitive if either key is; not extractable if either is not; the histories true iff true of BOTH keys
       let a1 := if getBoolD base CKA.SENSITIVE true || getBoolD ok CKA.SENSITIVE true then setA a CKA.SENSITIVE (.bool true) else a
       let a2 := if !(getBoolD base CKA.EXTRACTABLE true && getBoolD ok CKA.EXTRACTABLE true) then setA a1 CKA.EXTRACTABLE (.bool false) else a1
       setA (setA a2 CKA.ALWAYS_SENSITIVE (.bool (getBoolD base CKA.ALWAYS_SENSITIVE false && getBoolD ok CKA.ALWAYS_SENSITIVE false)))
         CKA.NEVER_EXTRACTABLE (.bool (getBoolD base CKA.NEVER_EXTRACTABLE false && getBoolD ok CKA.NEVER_EXTRACTABLE false)))
  else if mech == CKM.CONCATENATE_BASE_AND_DATA || mech == CKM.CONCATENATE_DATA_AND_BASE then
    let a1 := if getBoolD base CKA.SENSITIVE true then setA a CKA.SENSITIVE (.bool true) else a
    let a2 := if !getBoolD base CKA.EXTRACTABLE false then setA a1 CKA.EXTRACTABLE (.bool false) else a1
    setA (setA a2 CKA.ALWAYS_SENSITIVE (.bool (getBoolD base CKA.ALWAYS_SENSITIVE false))) CKA.NEVER_EXTRACTABLE (.bool (getBoolD base CKA.NEVER_EXTRACTABLE false))
  else
    let as := if getBoolD base CKA.ALWAYS_SENSITIVE false then getBoolD a CKA.SENSITIVE false else false
    let ne := if getBoolD base CKA.NEVER_EXTRACTABLE true then !getBoolD a CKA.EXTRACTABLE false else false
    setA (setA a CKA.ALWAYS_SENSITIVE (.bool as)) CKA.NEVER_EXTRACTABLE (.bool ne)

/-- the tail of the derive* helpers: CreateObject(OBJECT_OP_DERIVE), LOCAL := false, the sensitivity history, the value -/
def deriveFinish (s : State) (slot h cls kt : Nat) (onToken isPriv soIn : Bool) (tpl : Template) (value : AVal) (mech : Nat) (base : Attrs) (other : Option Attrs) : State × Resp :=
  match findClass cls kt 0 with
  | none => rOnly s CKR.ATTRIBUTE_VALUE_INVALID
  | some cd =>
    match saveTemplate cd (initAttrs cd) (reorderTpl (keyTemplate cls kt onToken isPriv tpl [CKA.CHECK_VALUE])) OP.DERIVE isPriv soIn CKR.OK with
    | .error rv => rOnly s rv
    | .ok attrs =>
      let a1 := setA (deriveFlags mech base other (setA attrs CKA.LOCAL (.bool false))) CKA.VALUE value
      -- check value: decided by the check-value observation (kcv); CKA_VALUE_LEN is not maintained by the derive* helpers
      let a2 := markUnk a1 [CKA.CHECK_VALUE, 0x161]
      let r := addObject s slot h onToken isPriv a2
      (r.1, { rv := CKR.OK, nums := [r.2] })

/-- C_DeriveKey: start conditions in code order; value by `deriveSecret` + `shapeSecret`; whatever lies behind (template engine details of the
    derive* helpers, sensitivity inheritance) follows the observation where the model does not compute it -/
def stepDerive (s : State) (h mech : Nat) (p : MParam) (bkH : Nat) (tpl : Template) (oRv : RV) : State × Resp :=
  match s.handles.getSess h with
  | none => rOnly s CKR.SESSION_HANDLE_INVALID
  | some ss =>
    if !deriveMechs.contains mech then rOnly s CKR.MECHANISM_INVALID else
    match findTok s.slots ss.slot with
    | none => rOnly s CKR.GENERAL_ERROR
    | some t =>
    match resolveObj s bkH with
    | none => rOnly s CKR.OBJECT_HANDLE_INVALID
    | some (_, bk) =>
      let st := stateOf t ss.rw
      let acc := Gen.haveRead st bk.onToken bk.isPriv
      if acc != CKR.OK then rOnly s acc
      else if !getBoolD bk.attrs CKA.DERIVE false then rOnly s CKR.KEY_FUNCTION_NOT_PERMITTED
      else if !mechPermitted s.mechCfg bk.attrs mech then rOnly s CKR.MECHANISM_INVALID
      else
        -- class / key type of the new key: the concatenation mechanisms default to a generic secret
        let cls := (tplULong tpl CKA.CLASS).getD (if isConcat mech then CKO.SECRET_KEY else 0x80000000)
        let kt := (tplULong tpl CKA.KEY_TYPE).getD (if isConcat mech then CKK.GENERIC else 0x80000000)
        if cls == 0x80000000 || kt == 0x80000000 then (if oRv == CKR.OK then rOnly s CKR.TEMPLATE_INCOMPLETE else rOnly s oRv) else
        let onToken := (tplBool tpl CKA.TOKEN).getD false
        let isPriv := (tplBool tpl CKA.PRIVATE).getD true
        if cls != CKO.SECRET_KEY then rOnly s CKR.ATTRIBUTE_VALUE_INVALID
        else if !([CKK.GENERIC, CKK.DES, CKK.DES2, CKK.DES3, CKK.AES].contains kt) then rOnly s CKR.TEMPLATE_INCONSISTENT
        else
          let accW := Gen.haveWrite st onToken isPriv
          if accW != CKR.OK then rOnly s accW else
          let bcls := classOf bk.attrs
          let bkt := getULongD bk.attrs CKA.KEY_TYPE 0x80000000
          let typeOk :=
            if mech == CKM.DH_PKCS_DERIVE then bcls == CKO.PRIVATE_KEY && bkt == CKK.DH
            else if mech == CKM.ECDH1_DERIVE then bcls == CKO.PRIVATE_KEY && (bkt == CKK.EC || bkt == CKK.EC_EDWARDS)
            else bcls == CKO.SECRET_KEY &&
              (if mech == CKM.DES_ECB_ENCRYPT_DATA || mech == CKM.DES_CBC_ENCRYPT_DATA then bkt == CKK.DES
               else if mech == CKM.DES3_ECB_ENCRYPT_DATA || mech == CKM.DES3_CBC_ENCRYPT_DATA then bkt == CKK.DES2 || bkt == CKK.DES3
               else if mech == CKM.AES_ECB_ENCRYPT_DATA || mech == CKM.AES_CBC_ENCRYPT_DATA then bkt == CKK.AES
               else true)
          if !typeOk then rOnly s CKR.KEY_TYPE_INCONSISTENT
          else if oRv == CKR.FUNCTION_FAILED then
            -- the derive* helpers create the object first and destroy it when the secret cannot be stored (too short, …): the handle value is used up
            ({ s with counter := s.counter + 1 }, { rv := oRv })
          else if oRv != CKR.OK then rOnly s oRv          -- everything else behind the start conditions that refuses: observed (no object is created)
          else
            let valueLen := match tpl.reverse.find? (fun e => e.ty == 0x161 && e.len == 8) with | some e => leToNat ((e.val.getD []).take 8) | none => 0
            let value := deriveValue s mech p bk kt valueLen isPriv
            deriveFinish s ss.slot h cls kt onToken isPriv t.soIn tpl value mech bk.attrs ((resolveObj s (p.nums.headD 0)).map (·.2.attrs))

end Shm
