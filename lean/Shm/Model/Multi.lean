/-
  Several processes on one token directory (C15).

  Each process is an instance of the single-process model with its own sessions, handles, login state and session objects.  What they share is the
  token store: the token objects on disk.  The library re-reads the store at every access (generation numbers, directory index), so a process that
  runs a call after another process did sees the store as that process left it: `adopt`.  A process that starts later begins with what is on disk:
  `spawn`.  Calls are interleaved at call granularity; the coordinator of the correspondence check produces exactly such interleavings.
-/
import Shm.Model.Machine
namespace Shm

/-- the serial number of the token in slot `id` -/
def serialAt (s : State) (id : Nat) : Option Bytes := (findTok s.slots id).map (·.serial)

/-- where process `q` has the token that process `p` has in slot `id`: slot numbers are per process (a token initialised by a running process stays in the
    slot it was created in, a process that starts later finds it in the slot derived from its serial number); tokens are the same when their serials are -/
def slotIn (q p : State) (id : Nat) : Option Nat :=
  match serialAt p id with
  | none => none
  | some ser => (q.slots.find? fun sl => (sl.tok.map (·.serial)) == some ser).map (·.id)

/-- a token object of `p` as `q` sees it; `none` when `q` does not (yet) list that token -/
def carry (q p : State) (o : Obj) : Option Obj := (slotIn q p o.slot).map fun id => { o with slot := id }

/-- process `q` runs next, after process `p`: the token objects (and the allocation counter for object identities) are `p`'s, everything else is `q`'s own -/
def adopt (q p : State) : State :=
  { q with objs := (p.objs.filter (·.onToken)).filterMap (carry q p) ++ q.objs.filter (fun o => !o.onToken), nextOid := max q.nextOid p.nextOid }

/-- a process that starts while others run: what a restart of `p` would find on disk; no sessions, no handles, not initialised -/
def spawn (p : State) : State := (stepRestart p).1

structure MState where
  procs : List (Nat × State) := []     -- the processes that are not running now
  cur : Nat := 0
  st : State := {}                     -- the process that ran last

def MState.lookup (m : MState) (i : Nat) : Option State := (m.procs.find? (·.1 == i)).map (·.2)

/-- hand control to process `i` -/
def MState.switch (m : MState) (i : Nat) : MState :=
  if i == m.cur then m else
  let target := match m.lookup i with
    | some q => adopt q m.st
    | none => spawn m.st
  { procs := (m.cur, m.st) :: m.procs.filter (·.1 != i), cur := i, st := target }

/-- one call of process `i` -/
def MState.step (m : MState) (i : Nat) (c : AnyCall) : MState × Resp :=
  let m' := m.switch i
  let (s', r) := stepAny m'.st c
  ({ m' with st := s' }, r)

end Shm
