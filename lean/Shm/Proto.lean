/-
  Line protocol: parse one (operation line, result line) pair of the harness transcript into a `Call`
  (oracle arguments filled from the observation) and the observed `Resp`; compare with the model.
-/
import Shm.Model.Step
namespace Shm

def words (line : String) : List String :=
  (line.trimAscii.toString.splitOn " ").filter (· ≠ "")

def parseNat? (s : String) : Option Nat :=
  if s.startsWith "0x" then
    (s.drop 2).toString.toList.foldl (fun acc c => do let a ← acc; let d ← hexDigitVal c; pure (a * 16 + d)) (some 0)
  else s.toNat?

def parseHexNat? (s : String) : Option Nat :=
  if s.isEmpty then none else
  s.toList.foldl (fun acc c => do let a ← acc; let d ← hexDigitVal c; pure (a * 16 + d)) (some 0)

def parseOptBytes (s : String) : Option (Option Bytes) :=
  if s == "-" then some none else (parseHex s).map some

/-- element of a nested template: `type=hex` | `type=!len` -/
def parseNestedEntry (s : String) : Option (Nat × Option Bytes × Nat) :=
  match s.splitOn "=" with
  | [ty, v] => do
      let t ← parseHexNat? ty
      if v.startsWith "!" then do let n ← parseNat? (v.drop 1).toString; pure (t, none, n)
      else do let b ← parseHex v; pure (t, some b, b.length)
  | _ => none

/-- template entry `type=hex` | `type=!len` (NULL pointer) | `type={e;e;…}` (array of CK_ATTRIBUTE) -/
def parseEntry (s : String) : Option TEntry :=
  match s.splitOn "={" with
  | [ty, body] => do
      let t ← parseHexNat? ty
      let inner := (body.dropEnd 1).toString
      let es ← ((inner.splitOn ";").filter (· ≠ "")).mapM parseNestedEntry
      pure { ty := t, val := some [], len := 24 * es.length, nested := some es }
  | _ =>
    match s.splitOn "=" with
    | [ty, v] => do
        let t ← parseHexNat? ty
        if v.startsWith "!" then do let n ← parseNat? (v.drop 1).toString; pure { ty := t, val := none, len := n }
        else do let b ← parseHex v; pure { ty := t, val := some b, len := b.length }
    | _ => none

def parseTpl (ws : List String) : Option Template := ws.mapM parseEntry

/-- `type:cap` of a getattr request (`n` = NULL buffer) -/
def parseReq (w : String) : Option (Nat × Option Nat) :=
  match w.splitOn ":" with
  | [ty, cap] => do
      let t ← parseHexNat? ty
      if cap == "n" then pure (t, none) else do let c ← parseNat? cap; pure (t, some c)
  | _ => none

/-- `type:len:data` of a getattr answer: len −1 = CK_UNAVAILABLE_INFORMATION; data `-` = nothing written -/
def parseGot (w : String) : Option (Nat × Option Bytes) :=
  match w.splitOn ":" with
  | [_, len, data] => do
      let l ← if len == "-1" then some UNAVAILABLE else parseNat? len
      if data == "-" then pure (l, none)
      else if data.startsWith "W" || data.endsWith "!OVERRUN" then pure (l, some [0xBA, 0xD0])   -- wrote where it must not
      else do let b ← parseHex data; pure (l, some b)
  | _ => none

structure Parsed where
  call : Call
  obs : Resp
  deriving Repr

def natsOf (ws : List String) : Option (List Nat) := ws.mapM parseNat?

/-- groups of five tokens `id init flags label serial` -/
def parseSlotRows : List String → Option (List Nat × List (Option Bytes))
  | [] => some ([], [])
  | id :: ini :: fl :: lab :: ser :: rest => do
      let i ← parseNat? id; let n ← parseNat? ini; let f ← parseNat? fl
      let l ← parseOptBytes lab; let s ← parseOptBytes ser
      let (ns, vs) ← parseSlotRows rest
      pure (i :: n :: f :: ns, l :: s :: vs)
  | _ => none

def parseMinted (ws : List String) : Option (List (Nat × Bytes)) :=
  ws.mapM fun w => match w.splitOn ":" with
    | [h, l] => do
        let hv ← parseNat? h
        -- `?`: the harness could not read CKA_LABEL of the minted handle through this session
        let lb ← if l == "?" then some [0xFF, 0x3F, 0xFF] else parseHex l
        pure (hv, lb)
    | _ => none

/-- `op` = tokens of the operation line, `res` = tokens of the result line after `=` -/
def parsePair (op res : List String) : Option Parsed :=
  match op, res with
  | ["init"], [rv] => do pure ⟨.initLib, { rv := ← parseNat? rv }⟩
  | ["fini"], [rv] => do pure ⟨.finiLib, { rv := ← parseNat? rv }⟩
  | ["slots"], rv :: n :: rows => do
      let (ns, vs) ← parseSlotRows rows
      pure ⟨.slots, { rv := ← parseNat? rv, nums := (← parseNat? n) :: ns, vals := vs }⟩
  | ["slots"], [rv] => do pure ⟨.slots, { rv := ← parseNat? rv }⟩
  | ["inittoken", _, pin, label], [rv, slot, ser] => do
      let r ← parseNat? rv
      let lab ← parseHex label
      let lab32 := lab ++ List.replicate (32 - lab.length) (32 : UInt8)
      let serial ← parseOptBytes ser
      pure ⟨.initToken (← parseNat? slot) (← parseOptBytes pin) lab32 (serial.getD []),
            { rv := r, vals := if r == 0 then [serial] else [] }⟩
  | ["open", _, flags], [rv, slot, h] => do
      let r ← parseNat? rv
      let hv ← parseNat? h
      pure ⟨.openSession (← parseNat? slot) (← parseNat? flags), { rv := r, nums := if r == 0 then [hv] else [] }⟩
  | ["close", _], [rv, h] => do pure ⟨.closeSession (← parseNat? h), { rv := ← parseNat? rv }⟩
  | ["closeall", _], [rv, s] => do pure ⟨.closeAll (← parseNat? s), { rv := ← parseNat? rv }⟩
  | ["sinfo", _], rv :: h :: rest => do
      pure ⟨.sessInfo (← parseNat? h), { rv := ← parseNat? rv, nums := ← natsOf rest }⟩
  | ["login", _, ut, pin], [rv, h] => do
      pure ⟨.login (← parseNat? h) (← parseNat? ut) (← parseOptBytes pin), { rv := ← parseNat? rv }⟩
  | ["logout", _], [rv, h] => do pure ⟨.logout (← parseNat? h), { rv := ← parseNat? rv }⟩
  | ["initpin", _, pin], [rv, h] => do pure ⟨.initPin (← parseNat? h) (← parseOptBytes pin), { rv := ← parseNat? rv }⟩
  | ["setpin", _, o, n], [rv, h] => do
      pure ⟨.setPin (← parseNat? h) (← parseOptBytes o) (← parseOptBytes n), { rv := ← parseNat? rv }⟩
  | "create" :: _ :: tpl, [rv, h, ho] => do
      let r ← parseNat? rv
      let hv ← parseNat? ho
      pure ⟨.create (← parseNat? h) (← parseTpl tpl) r, { rv := r, nums := if r == 0 then [hv] else [] }⟩
  | "getattr" :: _ :: _ :: req, rv :: h :: o :: got => do
      let rq ← req.mapM parseReq
      let g ← got.mapM (fun w => if w == "!WROTE" || w == "!UNSTABLE" then some (0, some [0xBA, 0xD0]) else parseGot w)
      let r ← parseNat? rv
      let detail := r == 0 || r == 0x11 || r == 0x12 || r == 0x150
      pure ⟨.getAttr (← parseNat? h) (← parseNat? o) rq g, { rv := r, nums := if detail then g.map (·.1) else [], vals := if detail then g.map (·.2) else [] }⟩
  | "setattr" :: _ :: _ :: tpl, [rv, h, o] => do
      let r ← parseNat? rv
      pure ⟨.setAttr (← parseNat? h) (← parseNat? o) (← parseTpl tpl) r, { rv := r }⟩
  | "copy" :: _ :: _ :: tpl, [rv, h, o, ho] => do
      let r ← parseNat? rv
      let hv ← parseNat? ho
      pure ⟨.copy (← parseNat? h) (← parseNat? o) (← parseTpl tpl) r, { rv := r, nums := if r == 0 then [hv] else [] }⟩
  | ["objsize", _, _], [rv, h, o, sz] => do
      let r ← parseNat? rv
      let z ← parseNat? sz
      pure ⟨.objSize (← parseNat? h) (← parseNat? o), { rv := r, nums := if r == 0 then [z] else [] }⟩
  | ["destroy", _, _], [rv, h, o] => do pure ⟨.destroy (← parseNat? h) (← parseNat? o), { rv := ← parseNat? rv }⟩
  | ["probe", _, _], [rv, h, o] => do pure ⟨.objProbe (← parseNat? h) (← parseNat? o), { rv := ← parseNat? rv }⟩
  | "findinit" :: _ :: tpl, rv :: h :: minted => do
      let m ← parseMinted minted
      pure ⟨.findInit (← parseNat? h) (← parseTpl tpl) m, { rv := ← parseNat? rv, nums := sortAsc (m.map (·.1)) }⟩
  | ["find", _, mx], rv :: h :: _cnt :: hs => do
      pure ⟨.find (← parseNat? h) (← parseNat? mx), { rv := ← parseNat? rv, nums := ← natsOf hs }⟩
  | ["find", _, mx], [rv, h] => do
      pure ⟨.find (← parseNat? h) (← parseNat? mx), { rv := ← parseNat? rv }⟩
  | ["findfinal", _], [rv, h] => do pure ⟨.findFinal (← parseNat? h), { rv := ← parseNat? rv }⟩
  | _, _ => none

/-- The engine oracle of `create` is only consulted after the modelled checks; everything else is compared
    exactly.  Returns `none` when model and observation agree, else a description. -/
def compareResp (c : Call) (model obs : Resp) : Option String :=
  if model.rv != obs.rv then some s!"rv: model 0x{String.ofList (Nat.toDigits 16 model.rv)} impl 0x{String.ofList (Nat.toDigits 16 obs.rv)}"
  else if model.nums != obs.nums then some s!"values: model {model.nums} impl {obs.nums}"
  else if model.vals != obs.vals then
    match c with
    | _ => some s!"bytes: model {model.vals.map (·.map toHex)} impl {obs.vals.map (·.map toHex)}"
  else none

/-- category of a disagreement: `rvclass` (one side OK, the other not), `rvcode` (both fail, different code),
    `nums` (handles/states/counts differ), `vals` (byte strings differ) -/
def mismatchCat (model obs : Resp) : String :=
  if model.rv != obs.rv then (if model.rv == 0 || obs.rv == 0 then "rvclass" else "rvcode")
  else if model.nums != obs.nums then "nums" else "vals"

end Shm
