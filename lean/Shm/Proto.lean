/-
  Line protocol: parse one (operation line, result line) pair of the harness transcript into a `Call`
  (oracle arguments filled from the observation) and the observed `Resp`; compare with the model.
-/
import Shm.Model.Step
namespace Shm

def words (line : String) : List String :=
  (line.trimAscii.toString.splitOn " ").filter (· ≠ "")

def parseNat? (s : String) : Option Nat :=
  if s.startsWith "0x" then
    (s.drop 2).toString.toList.foldl (fun acc c => do let a ← acc; let d ← hexDigitVal c; pure (a * 16 + d)) (some 0)
  else s.toNat?

def parseHexNat? (s : String) : Option Nat :=
  if s.isEmpty then none else
  s.toList.foldl (fun acc c => do let a ← acc; let d ← hexDigitVal c; pure (a * 16 + d)) (some 0)

def parseOptBytes (s : String) : Option (Option Bytes) :=
  if s == "-" then some none else (parseHex s).map some

/-- template entry `type=hex` | `type=!len` (NULL pointer) -/
def parseEntry (s : String) : Option (Nat × Option Bytes) :=
  match s.splitOn "=" with
  | [ty, v] => do
      let t ← parseHexNat? ty
      if v.startsWith "!" then pure (t, none)
      else if v.startsWith "{" then pure (t, some [])     -- nested templates: not interpreted by the spine
      else do let b ← parseHex v; pure (t, some b)
  | _ => none

def parseTpl (ws : List String) : Option Template := ws.mapM parseEntry

structure Parsed where
  call : Call
  obs : Resp
  deriving Repr

def natsOf (ws : List String) : Option (List Nat) := ws.mapM parseNat?

/-- groups of five tokens `id init flags label serial` -/
def parseSlotRows : List String → Option (List Nat × List (Option Bytes))
  | [] => some ([], [])
  | id :: ini :: fl :: lab :: ser :: rest => do
      let i ← parseNat? id; let n ← parseNat? ini; let f ← parseNat? fl
      let l ← parseOptBytes lab; let s ← parseOptBytes ser
      let (ns, vs) ← parseSlotRows rest
      pure (i :: n :: f :: ns, l :: s :: vs)
  | _ => none

def parseMinted (ws : List String) : Option (List (Nat × Bytes)) :=
  ws.mapM fun w => match w.splitOn ":" with
    | [h, l] => do let hv ← parseNat? h; let lb ← parseHex l; pure (hv, lb)
    | _ => none

/-- `op` = tokens of the operation line, `res` = tokens of the result line after `=` -/
def parsePair (op res : List String) : Option Parsed :=
  match op, res with
  | ["init"], [rv] => do pure ⟨.initLib, { rv := ← parseNat? rv }⟩
  | ["fini"], [rv] => do pure ⟨.finiLib, { rv := ← parseNat? rv }⟩
  | ["slots"], rv :: n :: rows => do
      let (ns, vs) ← parseSlotRows rows
      pure ⟨.slots, { rv := ← parseNat? rv, nums := (← parseNat? n) :: ns, vals := vs }⟩
  | ["slots"], [rv] => do pure ⟨.slots, { rv := ← parseNat? rv }⟩
  | ["inittoken", _, pin, label], [rv, slot, ser] => do
      let r ← parseNat? rv
      let lab ← parseHex label
      let lab32 := lab ++ List.replicate (32 - lab.length) (32 : UInt8)
      let serial ← parseOptBytes ser
      pure ⟨.initToken (← parseNat? slot) (← parseOptBytes pin) lab32 (serial.getD []),
            { rv := r, vals := if r == 0 then [serial] else [] }⟩
  | ["open", _, flags], [rv, slot, h] => do
      let r ← parseNat? rv
      let hv ← parseNat? h
      pure ⟨.openSession (← parseNat? slot) (← parseNat? flags), { rv := r, nums := if r == 0 then [hv] else [] }⟩
  | ["close", _], [rv, h] => do pure ⟨.closeSession (← parseNat? h), { rv := ← parseNat? rv }⟩
  | ["closeall", _], [rv, s] => do pure ⟨.closeAll (← parseNat? s), { rv := ← parseNat? rv }⟩
  | ["sinfo", _], rv :: h :: rest => do
      pure ⟨.sessInfo (← parseNat? h), { rv := ← parseNat? rv, nums := ← natsOf rest }⟩
  | ["login", _, ut, pin], [rv, h] => do
      pure ⟨.login (← parseNat? h) (← parseNat? ut) (← parseOptBytes pin), { rv := ← parseNat? rv }⟩
  | ["logout", _], [rv, h] => do pure ⟨.logout (← parseNat? h), { rv := ← parseNat? rv }⟩
  | ["initpin", _, pin], [rv, h] => do pure ⟨.initPin (← parseNat? h) (← parseOptBytes pin), { rv := ← parseNat? rv }⟩
  | ["setpin", _, o, n], [rv, h] => do
      pure ⟨.setPin (← parseNat? h) (← parseOptBytes o) (← parseOptBytes n), { rv := ← parseNat? rv }⟩
  | "create" :: _ :: tpl, [rv, h, ho] => do
      let r ← parseNat? rv
      let hv ← parseNat? ho
      pure ⟨.create (← parseNat? h) (← parseTpl tpl) r, { rv := r, nums := if r == 0 then [hv] else [] }⟩
  | ["destroy", _, _], [rv, h, o] => do pure ⟨.destroy (← parseNat? h) (← parseNat? o), { rv := ← parseNat? rv }⟩
  | ["probe", _, _], [rv, h, o] => do pure ⟨.objProbe (← parseNat? h) (← parseNat? o), { rv := ← parseNat? rv }⟩
  | "findinit" :: _ :: tpl, rv :: h :: minted => do
      let m ← parseMinted minted
      pure ⟨.findInit (← parseNat? h) (← parseTpl tpl) m, { rv := ← parseNat? rv, nums := sortAsc (m.map (·.1)) }⟩
  | ["find", _, mx], rv :: h :: _cnt :: hs => do
      pure ⟨.find (← parseNat? h) (← parseNat? mx), { rv := ← parseNat? rv, nums := ← natsOf hs }⟩
  | ["find", _, mx], [rv, h] => do
      pure ⟨.find (← parseNat? h) (← parseNat? mx), { rv := ← parseNat? rv }⟩
  | ["findfinal", _], [rv, h] => do pure ⟨.findFinal (← parseNat? h), { rv := ← parseNat? rv }⟩
  | _, _ => none

/-- The engine oracle of `create` is only consulted after the modelled checks; everything else is compared
    exactly.  Returns `none` when model and observation agree, else a description. -/
def compareResp (c : Call) (model obs : Resp) : Option String :=
  if model.rv != obs.rv then some s!"rv: model 0x{String.ofList (Nat.toDigits 16 model.rv)} impl 0x{String.ofList (Nat.toDigits 16 obs.rv)}"
  else if model.nums != obs.nums then some s!"values: model {model.nums} impl {obs.nums}"
  else if model.vals != obs.vals then
    match c with
    | _ => some s!"bytes: model {model.vals.map (·.map toHex)} impl {obs.vals.map (·.map toHex)}"
  else none

/-- category of a disagreement: `rvclass` (one side OK, the other not), `rvcode` (both fail, different code),
    `nums` (handles/states/counts differ), `vals` (byte strings differ) -/
def mismatchCat (model obs : Resp) : String :=
  if model.rv != obs.rv then (if model.rv == 0 || obs.rv == 0 then "rvclass" else "rvcode")
  else if model.nums != obs.nums then "nums" else "vals"

end Shm
