/-
  Line protocol: parse one (operation line, result line) pair of the harness transcript into a `Call`
  (oracle arguments filled from the observation) and the observed `Resp`; compare with the model.
-/
import Shm.Model.Machine
namespace Shm

def words (line : String) : List String :=
  (line.trimAscii.toString.splitOn " ").filter (· ≠ "")

def parseNat? (s : String) : Option Nat :=
  if s.startsWith "0x" then
    (s.drop 2).toString.toList.foldl (fun acc c => do let a ← acc; let d ← hexDigitVal c; pure (a * 16 + d)) (some 0)
  else s.toNat?

def parseHexNat? (s : String) : Option Nat :=
  if s.isEmpty then none else
  s.toList.foldl (fun acc c => do let a ← acc; let d ← hexDigitVal c; pure (a * 16 + d)) (some 0)

def parseOptBytes (s : String) : Option (Option Bytes) :=
  if s == "-" then some none else (parseHex s).map some

/-- element of a nested template: `type=hex` | `type=!len` -/
def parseNestedEntry (s : String) : Option (Nat × Option Bytes × Nat) :=
  match s.splitOn "=" with
  | [ty, v] => do
      let t ← parseHexNat? ty
      if v.startsWith "!" then do let n ← parseNat? (v.drop 1).toString; pure (t, none, n)
      else do let b ← parseHex v; pure (t, some b, b.length)
  | _ => none

/-- template entry `type=hex` | `type=!len` (NULL pointer) | `type={e;e;…}` (array of CK_ATTRIBUTE) -/
def parseEntry (s : String) : Option TEntry :=
  match s.splitOn "={" with
  | [ty, body] => do
      let t ← parseHexNat? ty
      let inner := (body.dropEnd 1).toString
      let es ← ((inner.splitOn ";").filter (· ≠ "")).mapM parseNestedEntry
      pure { ty := t, val := some [], len := 24 * es.length, nested := some es }
  | _ =>
    match s.splitOn "=" with
    | [ty, v] => do
        let t ← parseHexNat? ty
        if v.startsWith "!" then do let n ← parseNat? (v.drop 1).toString; pure { ty := t, val := none, len := n }
        else do let b ← parseHex v; pure { ty := t, val := some b, len := b.length }
    | _ => none

def parseTpl (ws : List String) : Option Template := ws.mapM parseEntry

/-- `type:cap` of a getattr request (`n` = NULL buffer) -/
def parseReq (w : String) : Option (Nat × Option Nat) :=
  match w.splitOn ":" with
  | [ty, cap] => do
      let t ← parseHexNat? ty
      if cap == "n" then pure (t, none) else do let c ← parseNat? cap; pure (t, some c)
  | _ => none

/-- `type:len:data` of a getattr answer: len −1 = CK_UNAVAILABLE_INFORMATION; data `-` = nothing written -/
def parseGot (w : String) : Option (Nat × Option Bytes) :=
  match w.splitOn ":" with
  | [_, len, data] => do
      let l ← if len == "-1" then some UNAVAILABLE else parseNat? len
      if data == "-" then pure (l, none)
      else if data.startsWith "W" || data.endsWith "!OVERRUN" then pure (l, some [0xBA, 0xD0])   -- wrote where it must not
      else do let b ← parseHex data; pure (l, some b)
  | _ => none

structure Parsed where
  call : AnyCall
  obs : Resp
  deriving Repr

instance : Coe Call AnyCall := ⟨AnyCall.core⟩

def natsOf (ws : List String) : Option (List Nat) := ws.mapM parseNat?

/-- groups of five tokens `id init flags label serial` -/
def parseSlotRows : List String → Option (List Nat × List (Option Bytes))
  | [] => some ([], [])
  | id :: ini :: fl :: lab :: ser :: rest => do
      let i ← parseNat? id; let n ← parseNat? ini; let f ← parseNat? fl
      let l ← parseOptBytes lab; let s ← parseOptBytes ser
      let (ns, vs) ← parseSlotRows rest
      pure (i :: n :: f :: ns, l :: s :: vs)
  | _ => none

def parseMinted (ws : List String) : Option (List (Nat × Bytes)) :=
  ws.mapM fun w => match w.splitOn ":" with
    | [h, l] => do
        let hv ← parseNat? h
        -- `?`: the harness could not read CKA_LABEL of the minted handle through this session
        let lb ← if l == "?" then some [0xFF, 0x3F, 0xFF] else parseHex l
        pure (hv, lb)
    | _ => none

/-- mechanism token `<mechhex>[:raw hex | kind(args)]` -/
def parseMechTok (w : String) : Option (Nat × MParam) :=
  match w.splitOn ":" with
  | [m] => do pure (← parseHexNat? m, {})
  | m :: rest => do
      let mech ← parseHexNat? m
      let p := ":".intercalate rest
      match p.splitOn "(" with
      | [raw] => do let b ← parseHex raw; pure (mech, { present := true, len := b.length, raw := [b] })
      | [kind, args] =>
        let as := ((args.dropEnd 1).toString.splitOn ",")
        let hexLen (x : String) : Nat := ((parseHex x).getD []).length
        let num (x : String) : Nat := (parseNat? x).getD 0
        if kind == "gcm" then pure (mech, { present := true, kind := kind, len := hexLen (as.getD 0 "."), nums := [hexLen (as.getD 0 "."), hexLen (as.getD 1 "."), num (as.getD 2 "0")], raw := [(parseHex (as.getD 0 ".")).getD [], (parseHex (as.getD 1 ".")).getD []] })
        else if kind == "ctr" then
          -- counter value: the low `bits` bits of the 16-byte block (big endian)
          let cb := ((parseHex (as.getD 1 ".")).getD []) ++ List.replicate 16 (0 : UInt8)
          let v := (cb.take 16).foldl (fun acc b => acc * 256 + b.toNat) 0
          pure (mech, { present := true, kind := kind, nums := [num (as.getD 0 "0"), v], raw := [[], cb.take 16] })
        else pure (mech, { present := true, kind := kind, nums := as.map num, raw := as.map fun x => (parseHex x).getD [] })
      | _ => none
  | _ => none

/-- output buffer argument: `n` = NULL pointer -/
def parseCap (w : String) : Option (Option Nat) := if w == "n" then some none else (parseNat? w).map some

/-- data argument: `-` = NULL pointer; only the length matters to the model -/
def parseInLen (w : String) : Option (Option Nat) := if w == "-" then some none else (parseHex w).map (fun b => some b.length)

/-- ` <len> <data|-|W…> [!OVERRUN]` of an output-producing call -/
def parseOut (rv : Nat) (ws : List String) : Option OutObs :=
  match ws with
  | len :: data :: rest => do
      let l ← parseNat? len
      let d ← if data == "-" then some none
               else if data.startsWith "W" then some (some [0xBA, 0xD0])
               else (parseHex data).map some
      if rest.contains "!OVERRUN" then pure { rv := rv, len := l, data := some [0xBA, 0xD1] } else pure { rv := rv, len := l, data := d }
  | _ => none

/-- expected shape of the observation of an output-producing call: on OK with a buffer: length + bytes; on OK with NULL or
    BUFFER_TOO_SMALL: length only; otherwise nothing -/
def outResp (o : OutObs) (cap : Option Nat) : Resp :=
  if o.rv == 0 && cap.isSome then { rv := 0, nums := [o.len], vals := [o.data] }
  else if o.rv == 0 || o.rv == 0x150 then { rv := o.rv, nums := [o.len], vals := if o.data.isSome then [o.data] else [] }
  else { rv := o.rv, vals := if o.data.isSome then [o.data] else [] }

def initKindOf (op : String) : Option InitKind :=
  if op == "encinit" then some .encrypt else if op == "decinit" then some .decrypt
  else if op == "siginit" then some .sign else if op == "verinit" then some .verify else none

def splitAt (ws : List String) (sep : String) : List String × List String :=
  (ws.takeWhile (· != sep), (ws.dropWhile (· != sep)).drop 1)

def parseOpPair (op res : List String) : Option Parsed :=
  match op, res with
  | ["cfgmechs", cfg], _ => some ⟨.op (.cfgMechs cfg), { rv := 0 }⟩
  | ["mechlist", _], rv :: slot :: _n :: ms => do
      let l ← ms.mapM parseHexNat?
      pure ⟨.op (.mechList (← parseNat? slot)), { rv := ← parseNat? rv, nums := sortNat l }⟩
  | ["mechlist", _], [rv, slot] => do pure ⟨.op (.mechList (← parseNat? slot)), { rv := ← parseNat? rv }⟩
  | [opn, _, m, _], [rv, h, k] => do
      let kind ← initKindOf opn
      let (mech, p) ← parseMechTok m
      let r ← parseNat? rv
      pure ⟨.op (.opInit kind (← parseNat? h) mech p (← parseNat? k) r), { rv := r }⟩
  | ["diginit", _, m], [rv, h] => do
      let (mech, _) ← parseMechTok m
      let r ← parseNat? rv
      pure ⟨.op (.digestInit (← parseNat? h) mech r), { rv := r }⟩
  | ["wrap", _, m, _, _, c], rv :: h :: wk :: k :: out => do
        let r ← parseNat? rv
        let (mech, p) ← parseMechTok m
        let cap ← parseCap c
        let o ← parseOut r out
        pure ⟨.op (.wrap (← parseNat? h) mech p (← parseNat? wk) (← parseNat? k) cap o), outResp o cap⟩
  | "unwrap" :: _ :: m :: _ :: _ :: tpl, [rv, h, uk, hk, blob] => do
      let r ← parseNat? rv
      let (mech, p) ← parseMechTok m
      -- the wrapped bytes as the harness resolved them (a reference to an earlier wrap output, possibly damaged) are echoed in the result
      let b ← if blob == "-" then some none else if blob == "." then some (some []) else (parseHex blob).map some
      let hkv ← parseNat? hk
      pure ⟨.op (.unwrap (← parseNat? h) mech p (← parseNat? uk) b (← parseTpl tpl) r), { rv := r, nums := if r == 0 then [hkv] else [] }⟩
  | "derive" :: _ :: m :: _ :: tpl, [rv, h, bk, hk, other] => do
      let r ← parseNat? rv
      let (mech0, p0) ← parseMechTok m
      let hkv ← parseNat? hk
      pure ⟨.op (.derive (← parseNat? h) mech0 { p0 with nums := [← parseNat? other] } (← parseNat? bk) (← parseTpl tpl) r), { rv := r, nums := if r == 0 then [hkv] else [] }⟩
  | "derive" :: _ :: m :: _ :: tpl, [rv, h, bk, hk] => do
      let r ← parseNat? rv
      let (mech0, p0) ← parseMechTok m
      -- `obj(@k)`: the other key of CKM_CONCATENATE_BASE_AND_KEY is named by reference in the op line; its handle value is not in the result: not followed
      let hkv ← parseNat? hk
      pure ⟨.op (.derive (← parseNat? h) mech0 p0 (← parseNat? bk) (← parseTpl tpl) r), { rv := r, nums := if r == 0 then [hkv] else [] }⟩
  | ["digkey", _, _], [rv, h, k] => do
      let r ← parseNat? rv
      pure ⟨.op (.digestKey (← parseNat? h) (← parseNat? k) r), { rv := r }⟩
  | [opn, _, d, c], rv :: h :: out =>
      if ["enc", "dec", "encupd", "decupd", "sign", "digest"].contains opn then do
        let r ← parseNat? rv
        let hv ← parseNat? h
        let i ← parseInLen d
        let cap ← parseCap c
        let o ← parseOut r out
        let call : OpCall :=
          if opn == "enc" then .crypt true hv i cap o else if opn == "dec" then .crypt false hv i cap o
          else if opn == "encupd" then .cryptUpdate true hv i cap o else if opn == "decupd" then .cryptUpdate false hv i cap o
          else if opn == "sign" then .sign hv i cap o else .digest hv i cap o
        pure ⟨.op call, outResp o cap⟩
      else if opn == "verify" then do
        match out with
        | [] => do
          let r ← parseNat? rv
          pure ⟨.op (.verify (← parseNat? h) (← parseInLen d) (← parseInLen c) r), { rv := r }⟩
        | _ => none
      else none
  | [opn, _, c], rv :: h :: out =>
      if ["encfinal", "decfinal", "sigfinal", "digfinal"].contains opn then do
        let r ← parseNat? rv
        let hv ← parseNat? h
        let cap ← parseCap c
        let o ← parseOut r out
        let call : OpCall :=
          if opn == "encfinal" then .cryptFinal true hv cap o else if opn == "decfinal" then .cryptFinal false hv cap o
          else if opn == "sigfinal" then .signFinal hv cap o else .digestFinal hv cap o
        pure ⟨.op call, outResp o cap⟩
      else if ["sigupd", "verupd", "digupd"].contains opn then do
        match out with
        | [] => do
          let r ← parseNat? rv
          let kind : OpKind := if opn == "sigupd" then .sign else if opn == "verupd" then .verify else .digest
          pure ⟨.op (.update kind (← parseNat? h) (← parseInLen c) r), { rv := r }⟩
        | _ => none
      else if opn == "verfinal" then do
        match out with
        | [] => do
          let r ← parseNat? rv
          pure ⟨.op (.verifyFinal (← parseNat? h) (← parseInLen c) r), { rv := r }⟩
        | _ => none
      else none
  | "genkey" :: _ :: m :: tpl, [rv, h, hk] => do
      let (mech, _) ← parseMechTok m
      let r ← parseNat? rv
      let hv ← parseNat? hk
      pure ⟨.op (.genKey (← parseNat? h) mech (← parseTpl tpl) r), { rv := r, nums := if r == 0 then [hv] else [] }⟩
  | "genpair" :: _ :: m :: tpls, [rv, h, h1, h2] => do
      let (mech, _) ← parseMechTok m
      let r ← parseNat? rv
      let (a, b) := splitAt tpls "/"
      let v1 ← parseNat? h1
      let v2 ← parseNat? h2
      pure ⟨.op (.genPair (← parseNat? h) mech (← parseTpl a) (← parseTpl b) r), { rv := r, nums := if r == 0 then [v1, v2] else [] }⟩
  | _, _ => none

/-- `op` = tokens of the operation line, `res` = tokens of the result line after `=` -/
def parseCorePair (op res : List String) : Option (Call × Resp) :=
  match op, res with
  | ["init"], [rv] => do pure ⟨.initLib, { rv := ← parseNat? rv }⟩
  -- C_Initialize with locking enabled (OS mutexes / the harness's scheduler callbacks / index-handle callbacks): the same call as far as the model is concerned
  | ["initos"], [rv] => do pure ⟨.initLib, { rv := ← parseNat? rv }⟩
  | ["initmx"], [rv] => do pure ⟨.initLib, { rv := ← parseNat? rv }⟩
  | ["initix"], [rv] => do pure ⟨.initLib, { rv := ← parseNat? rv }⟩
  | ["fini"], [rv] => do pure ⟨.finiLib, { rv := ← parseNat? rv }⟩
  | ["slots"], rv :: n :: rows => do
      let (ns, vs) ← parseSlotRows rows
      pure ⟨.slots, { rv := ← parseNat? rv, nums := (← parseNat? n) :: ns, vals := vs }⟩
  | ["slots"], [rv] => do pure ⟨.slots, { rv := ← parseNat? rv }⟩
  | ["inittoken", _, pin, label], [rv, slot, ser] => do
      let r ← parseNat? rv
      let lab ← parseHex label
      let lab32 := lab ++ List.replicate (32 - lab.length) (32 : UInt8)
      let serial ← parseOptBytes ser
      pure ⟨.initToken (← parseNat? slot) (← parseOptBytes pin) lab32 (serial.getD []),
            { rv := r, vals := if r == 0 then [serial] else [] }⟩
  | ["open", _, flags], [rv, slot, h] => do
      let r ← parseNat? rv
      let hv ← parseNat? h
      pure ⟨.openSession (← parseNat? slot) (← parseNat? flags), { rv := r, nums := if r == 0 then [hv] else [] }⟩
  | ["close", _], [rv, h] => do pure ⟨.closeSession (← parseNat? h), { rv := ← parseNat? rv }⟩
  | ["closeall", _], [rv, s] => do pure ⟨.closeAll (← parseNat? s), { rv := ← parseNat? rv }⟩
  | ["sinfo", _], rv :: h :: rest => do
      pure ⟨.sessInfo (← parseNat? h), { rv := ← parseNat? rv, nums := ← natsOf rest }⟩
  | ["login", _, ut, pin], [rv, h] => do
      pure ⟨.login (← parseNat? h) (← parseNat? ut) (← parseOptBytes pin), { rv := ← parseNat? rv }⟩
  | ["logout", _], [rv, h] => do pure ⟨.logout (← parseNat? h), { rv := ← parseNat? rv }⟩
  | ["initpin", _, pin], [rv, h] => do pure ⟨.initPin (← parseNat? h) (← parseOptBytes pin), { rv := ← parseNat? rv }⟩
  | ["setpin", _, o, n], [rv, h] => do
      pure ⟨.setPin (← parseNat? h) (← parseOptBytes o) (← parseOptBytes n), { rv := ← parseNat? rv }⟩
  | "create" :: _ :: tpl, [rv, h, ho] => do
      let r ← parseNat? rv
      let hv ← parseNat? ho
      pure ⟨.create (← parseNat? h) (← parseTpl tpl) r, { rv := r, nums := if r == 0 then [hv] else [] }⟩
  | "getattr" :: _ :: _ :: req, rv :: h :: o :: got => do
      let rq ← req.mapM parseReq
      let g ← got.mapM (fun w => if w == "!WROTE" || w == "!UNSTABLE" then some (0, some [0xBA, 0xD0]) else parseGot w)
      let r ← parseNat? rv
      let detail := r == 0 || r == 0x11 || r == 0x12 || r == 0x150
      pure ⟨.getAttr (← parseNat? h) (← parseNat? o) rq g, { rv := r, nums := if detail then g.map (·.1) else [], vals := if detail then g.map (·.2) else [] }⟩
  | "setattr" :: _ :: _ :: tpl, [rv, h, o] => do
      let r ← parseNat? rv
      pure ⟨.setAttr (← parseNat? h) (← parseNat? o) (← parseTpl tpl) r, { rv := r }⟩
  | "copy" :: _ :: _ :: tpl, [rv, h, o, ho] => do
      let r ← parseNat? rv
      let hv ← parseNat? ho
      pure ⟨.copy (← parseNat? h) (← parseNat? o) (← parseTpl tpl) r, { rv := r, nums := if r == 0 then [hv] else [] }⟩
  | ["objsize", _, _], [rv, h, o, sz] => do
      let r ← parseNat? rv
      let z ← parseNat? sz
      pure ⟨.objSize (← parseNat? h) (← parseNat? o), { rv := r, nums := if r == 0 then [z] else [] }⟩
  | ["destroy", _, _], [rv, h, o] => do pure ⟨.destroy (← parseNat? h) (← parseNat? o), { rv := ← parseNat? rv }⟩
  | ["probe", _, _], [rv, h, o] => do pure ⟨.objProbe (← parseNat? h) (← parseNat? o), { rv := ← parseNat? rv }⟩
  | "findinit" :: _ :: tpl, rv :: h :: minted => do
      let m ← parseMinted minted
      pure ⟨.findInit (← parseNat? h) (← parseTpl tpl) m, { rv := ← parseNat? rv, nums := sortAsc (m.map (·.1)) }⟩
  | ["find", _, mx], rv :: h :: _cnt :: hs => do
      pure ⟨.find (← parseNat? h) (← parseNat? mx), { rv := ← parseNat? rv, nums := ← natsOf hs }⟩
  | ["find", _, mx], [rv, h] => do
      pure ⟨.find (← parseNat? h) (← parseNat? mx), { rv := ← parseNat? rv }⟩
  | ["findfinal", _], [rv, h] => do pure ⟨.findFinal (← parseNat? h), { rv := ← parseNat? rv }⟩
  | _, _ => none

/-- The engine oracle of `create` is only consulted after the modelled checks; everything else is compared
    exactly.  Returns `none` when model and observation agree, else a description. -/
def parsePair (op res : List String) : Option Parsed :=
  if op == ["reexec"] then some ⟨.restart, { rv := 0 }⟩ else
  match parseCorePair op res with
  | some (c, r) => some ⟨.core c, r⟩
  | none => parseOpPair op res

def compareResp (model obs : Resp) : Option String :=
  if model.rv != obs.rv then some s!"rv: model 0x{String.ofList (Nat.toDigits 16 model.rv)} impl 0x{String.ofList (Nat.toDigits 16 obs.rv)}"
  else if model.nums != obs.nums then some s!"values: model {model.nums} impl {obs.nums}"
  else if model.vals != obs.vals then
    some s!"bytes: model {model.vals.map (·.map toHex)} impl {obs.vals.map (·.map toHex)}"
  else none

/-- category of a disagreement: `rvclass` (one side OK, the other not), `rvcode` (both fail, different code),
    `nums` (handles/states/counts differ), `vals` (byte strings differ) -/
def mismatchCat (model obs : Resp) : String :=
  if model.rv != obs.rv then (if model.rv == 0 || obs.rv == 0 then "rvclass" else "rvcode")
  else if model.nums != obs.nums then "nums" else "vals"

end Shm
