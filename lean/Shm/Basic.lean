def hello := "world"
