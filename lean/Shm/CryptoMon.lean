/-
  The cryptographic monitor of the driver (C10): it follows every encrypt / decrypt / sign / verify / digest operation of a
  transcript — across multi-part calls, in whatever pieces the input was fed — and, when the operation completes, recomputes the
  result with the reference implementations of Shm/Crypto from the key VALUE the model holds.  It is not part of the state model
  (no theorem speaks about it); it is the "independent implementation of the same standard mechanism" the property asks for.
-/
import Shm.Model.Machine
import Shm.Crypto.More
import Shm.Crypto.DES
import Shm.Crypto.MD5
import Shm.Crypto.RsaPad
import Shm.Crypto.Ecc
import Shm.Proto
namespace Shm.CryptoMon
open Shm Shm.Crypto

structure MonOp where
  kind : String            -- enc / dec / sign / verify / digest
  mech : Nat
  p : MParam
  key : Option Attrs
  inp : Bytes := []
  out : Bytes := []
  pub : Option Attrs := none      -- attributes of the public half, when the key is the private half of a pair generated in this transcript
  deriving Inhabited

/-- the monitor's memory: the operations it follows, attribute values the token disclosed through C_GetAttributeValue for attributes whose value the state
    model does not compute (public values of GENERATED keys: modulus, public exponent, EC point), and which public key belongs to which generated private key -/
structure Mon where
  ops : List (Nat × MonOp) := []
  learned : List ((Nat × Nat) × Bytes) := []
  pairs : List (Nat × Nat) := []
  deriving Inhabited

def Mon.get (m : Mon) (h : Nat) : Option MonOp := m.ops.lookup h
def Mon.set (m : Mon) (h : Nat) (o : MonOp) : Mon := { m with ops := (h, o) :: m.ops.filter (·.1 != h) }
def Mon.drop (m : Mon) (h : Nat) : Mon := { m with ops := m.ops.filter (·.1 != h) }

/-- the attributes of an object as the monitor knows them: the model's, with disclosed values filled in where the model has none -/
def Mon.attrsOf (m : Mon) (o : Obj) : Attrs :=
  m.learned.foldl (fun a e =>
    if e.1.1 != o.oid then a else
    match getA a e.1.2 with
    | none | some .unk => setA a e.1.2 (.bytes e.2)
    | _ => a) o.attrs

def attrBytes (o : Attrs) (ty : Nat) : Option Bytes := match getA o ty with | some (.bytes v _) => some v | _ => none

def hashOf (mech : Nat) : Option (String × (Bytes → Bytes)) :=
  if mech == 0x210 || mech == 0x211 then some ("md5", md5)
  else if mech == 0x220 || mech == 0x221 || mech == 0x6 then some ("sha1", sha1)
  else if mech == 0x255 || mech == 0x256 || mech == 0x46 then some ("sha224", sha224)
  else if mech == 0x250 || mech == 0x251 || mech == 0x40 then some ("sha256", sha256)
  else if mech == 0x260 || mech == 0x261 || mech == 0x41 then some ("sha384", sha384)
  else if mech == 0x270 || mech == 0x271 || mech == 0x42 then some ("sha512", sha512)
  else none

/-- reference encryption; `none`: not computed -/
def refEncrypt (o : MonOp) : Option (Option Bytes) := do
  let key ← o.key.bind (attrBytes · CKA.VALUE)
  let kt := getULongD (o.key.getD []) CKA.KEY_TYPE 0
  if kt == CKK.DES2 || kt == CKK.DES3 then
    -- triple DES (FIPS 46-3), 8-byte blocks
    let E := DES.enc3 key
    if o.mech == 0x132 then some (if o.inp.length % 8 == 0 then some (DES.ecb8 E o.inp) else none)
    else if o.mech == 0x133 then some (if o.inp.length % 8 == 0 then some (DES.cbcEnc8 E (o.p.raw.headD []) o.inp) else none)
    else if o.mech == 0x136 then some (some (DES.cbcEnc8 E (o.p.raw.headD []) (pkcs7Pad 8 o.inp)))
    else none
  else
  if kt != CKK.AES then none else
  let E := aesEncBlock (aesKey key)
  if o.mech == 0x1081 then some (if o.inp.length % 16 == 0 then some (ecbEncrypt E o.inp) else none)
  else if o.mech == 0x1082 then some (if o.inp.length % 16 == 0 then some (cbcEncrypt E (o.p.raw.headD []) o.inp) else none)
  else if o.mech == 0x1085 then some (some (cbcEncrypt E (o.p.raw.headD []) (pkcs7Pad 16 o.inp)))
  else if o.mech == 0x1086 then some (some (ctrCrypt E (o.p.nums.headD 128) ((o.p.raw.getD 1 [] ++ List.replicate 16 0).take 16) o.inp))
  else if o.mech == 0x1087 then
    let (c, t) := gcmEncrypt E (o.p.raw.headD []) (o.p.raw.getD 1 []) o.inp
    some (some (c ++ t.take ((o.p.nums.getD 2 128) / 8)))
  else none

/-- reference decryption; inner `none`: the reference refuses the input (bad padding, bad tag, bad length) -/
def refDecrypt (o : MonOp) : Option (Option Bytes) := do
  let key ← o.key.bind (attrBytes · CKA.VALUE)
  let kt := getULongD (o.key.getD []) CKA.KEY_TYPE 0
  if kt == CKK.DES2 || kt == CKK.DES3 then
    let D := DES.dec3 key
    if o.mech == 0x132 then some (if o.inp.length % 8 == 0 then some (DES.ecb8 D o.inp) else none)
    else if o.mech == 0x133 then some (if o.inp.length % 8 == 0 then some (DES.cbcDec8 D (o.p.raw.headD []) o.inp) else none)
    else if o.mech == 0x136 then some (if o.inp.isEmpty || o.inp.length % 8 != 0 then none else pkcs7Unpad 8 (DES.cbcDec8 D (o.p.raw.headD []) o.inp))
    else none
  else
  if kt != CKK.AES then none else
  let E := aesEncBlock (aesKey key)
  let D := aesDecBlock (aesKey key)
  if o.mech == 0x1081 then some (if o.inp.length % 16 == 0 then some (((chunks 16 o.inp).map D).flatten) else none)
  else if o.mech == 0x1082 then some (if o.inp.length % 16 == 0 then some (cbcDecrypt D (o.p.raw.headD []) o.inp) else none)
  else if o.mech == 0x1085 then some (if o.inp.isEmpty || o.inp.length % 16 != 0 then none else pkcs7Unpad 16 (cbcDecrypt D (o.p.raw.headD []) o.inp))
  else if o.mech == 0x1086 then some (some (ctrCrypt E (o.p.nums.headD 128) ((o.p.raw.getD 1 [] ++ List.replicate 16 0).take 16) o.inp))
  else if o.mech == 0x1087 then some (gcmDecrypt E (o.p.raw.headD []) (o.p.raw.getD 1 []) o.inp ((o.p.nums.getD 2 128) / 8))
  else none

/-- reference RSA decryption of `c` with the private key attributes `priv` (modulus, private exponent) under the operation's mechanism: CKM_RSA_PKCS (EME-PKCS1-v1_5),
    CKM_RSA_X_509 (raw) and CKM_RSA_PKCS_OAEP (SHA-1, MGF1-SHA-1, empty label - what the token supports).  Outer `none`: not computed; inner `none`: decryption error -/
def rsaDecryptRef (mech : Nat) (priv : Attrs) (c : Bytes) : Option (Option Bytes) := do
  let n ← attrBytes priv 0x120
  let d ← attrBytes priv 0x123
  let k := (n.dropWhile (· == 0)).length
  if c.length != k then some none else
  let em := rsaPrivate (bytesToNat n) (bytesToNat d) k c
  if mech == 0x1 then some (emePkcs1Decode em)
  else if mech == 0x3 then some (some em)
  else if mech == 0x9 then some (emeOaepDecode sha1 sha1 em)
  else none

/-- reference MAC / deterministic signature -/
def refMac (o : MonOp) : Option Bytes := do
  let key ← o.key.bind (attrBytes · CKA.VALUE)
  if o.mech == 0x211 then some (hmac64 md5 key o.inp)
  else if o.mech == 0x221 then some (hmac64 sha1 key o.inp)
  else if o.mech == 0x256 then some (hmac64 sha224 key o.inp)
  else if o.mech == 0x251 then some (hmac64 sha256 key o.inp)
  else if o.mech == 0x261 then some (hmac128 sha384 key o.inp)
  else if o.mech == 0x271 then some (hmac128 sha512 key o.inp)
  else if o.mech == 0x108A then some (cmac (aesEncBlock (aesKey key)) o.inp)
  else if o.mech == 0x138 then some (DES.cmac8 (DES.enc3 key) o.inp)
  else none

/-- is `sig` a valid signature of the accumulated input under the key of the operation?  `none`: not computed -/
def refVerify (o : MonOp) (sig : Bytes) : Option Bool := do
  let ka ← o.key
  let kt := getULongD ka CKA.KEY_TYPE 0xFFFF
  if kt == CKK.RSA then
    let n ← attrBytes ka 0x120
    let e ← attrBytes ka 0x122
    let k := (n.dropWhile (· == 0)).length
    if sig.length != k then some false else
    let em := rsaPublic (bytesToNat n) (bytesToNat e) k sig
    if o.mech == 0x1 then (emsaPkcs1 o.inp k).map (· == em) |>.orElse (fun _ => some false)
    else if o.mech == 0x3 then some (em == List.replicate (k - o.inp.length) 0 ++ o.inp)
    else if [0xD, 0xE, 0x43, 0x44, 0x45, 0x47].contains o.mech then
      -- RSASSA-PSS (RFC 8017 8.1.2): CKM_RSA_PKCS_PSS signs a hash the caller computed; the CKM_SHAx_RSA_PKCS_PSS mechanisms hash the message themselves.
      -- parameters (hashAlg, mgf, sLen); hash and MGF1 hash as the parameters name them (the token insists that they agree with the mechanism)
      let byMgf (g : Nat) : Option (Bytes → Bytes) := if g == 1 then some sha1 else if g == 2 then some sha256 else if g == 3 then some sha384 else if g == 4 then some sha512 else if g == 5 then some sha224 else none
      let byMech (m : Nat) : Option (Bytes → Bytes) := if m == 0xE then some sha1 else if m == 0x43 then some sha256 else if m == 0x44 then some sha384 else if m == 0x45 then some sha512 else if m == 0x47 then some sha224 else none
      -- the harness writes the hash parameter as the hexadecimal mechanism number (220, 250, 260, 270, 255), read here as decimal digits
      let byParam (h : Nat) : Option (Bytes → Bytes) := if h == 220 then some sha1 else if h == 250 then some sha256 else if h == 260 then some sha384 else if h == 270 then some sha512 else if h == 255 then some sha224 else none
      let sLen := o.p.nums.getD 2 0
      let modBits := (bytesToNat n).log2 + 1
      match (if o.mech == 0xD then byParam (o.p.nums.getD 0 0) else byMech o.mech), byMgf (o.p.nums.getD 1 0) with
      | some hf, some mg =>
        let mHash := if o.mech == 0xD then o.inp else hf o.inp
        let emLen := (modBits - 1 + 7) / 8
        some (emsaPssVerify hf mg mHash (em.drop (k - emLen)) (modBits - 1) sLen && (em.take (k - emLen)).all (· == 0))
      | _, _ => none
    else match hashOf o.mech with
      | some (name, hf) => if [0x6, 0x46, 0x40, 0x41, 0x42].contains o.mech then (emsaPkcs1 (digestInfoPrefix name ++ hf o.inp) k).map (· == em) else none
      | none => none
  else if kt == CKK.EC && o.mech == 0x1041 then
    -- ECDSA over any named prime curve of Crypto/Curves.lean (P-256, P-384, P-521, P-224, secp160r1, secp224k1, secp256k1, secp192k1)
    let oid ← attrBytes ka 0x180
    match curveByOid oid with
    | none => none
    | some c =>
      -- the public point: CKA_EC_POINT of a public key, or d·G for a private key whose value is known, or the point of the public half of a generated pair
      let q : Option (Nat × Nat) :=
        match attrBytes ka 0x181 with
        | some pt => c.parsePoint pt
        | none => match attrBytes ka CKA.VALUE with
          | some d => c.mul (bytesToNat d) c.G
          | none => (o.pub.bind (attrBytes · 0x181)).bind c.parsePoint
      q.map fun qq => c.ecdsaVerify qq o.inp sig
  else (refMac o).map (· == sig)

def refDigest (o : MonOp) : Option Bytes := (hashOf o.mech).bind fun (_, hf) => if [0x210, 0x220, 0x255, 0x250, 0x260, 0x270].contains o.mech then some (hf o.inp) else none

/-- verdict on a completed operation: `none` agreement or not computed, `some text` disagreement -/
def judgeFinish (o : MonOp) (rv : Nat) (sigArg : Option Bytes) : Option String × String :=
  let hex := toHex
  let isRsa := getULongD (o.key.getD []) CKA.KEY_TYPE 0xFFFF == CKK.RSA
  if o.kind == "enc" && isRsa then
    -- the token encrypted with a public key (randomised for PKCS#1 / OAEP): the reference decrypts the token's output with the private exponent of the same modulus
    (if rv != 0 then (none, "failed") else
     match o.pub.bind (fun pr => rsaDecryptRef o.mech pr o.out) with
     | none => (none, "notcomputed")
     | some (some m) =>
       let want := if o.mech == 0x3 then List.replicate (m.length - o.inp.length) 0 ++ o.inp else o.inp
       if m == want then (none, "decrypts") else (some s!"the reference decrypts the token's RSA ciphertext to {hex m}, not to the plaintext {hex o.inp}", "differ")
     | some none => (some "the reference cannot decrypt the token's RSA ciphertext (padding / length)", "differ"))
  else if o.kind == "dec" && isRsa then
    (match o.key.bind (fun pr => rsaDecryptRef o.mech pr o.inp) with
     | none => (none, "notcomputed")
     | some (some want) => if rv == 0 then (if want == o.out then (none, "equal") else (some s!"RSA plaintext: reference {hex want} token {hex o.out}", "differ")) else (none, "token-refuses")
     | some none => if rv == 0 then (some s!"the token decrypts (to {hex o.out}) an RSA ciphertext the reference rejects", "differ") else (none, "both-refuse"))
  else if o.kind == "enc" then
    (match refEncrypt o with
     | none => (none, "notcomputed")
     | some (some want) => if rv == 0 then (if want == o.out then (none, "equal") else (some s!"ciphertext: reference {hex want} token {hex o.out}", "differ")) else (some s!"the token refuses (rv={rv}) what the reference encrypts", "differ")
     | some none => if rv == 0 then (some "the token encrypts an input the reference refuses (length)", "differ") else (none, "both-refuse"))
  else if o.kind == "dec" then
    (match refDecrypt o with
     | none => (none, "notcomputed")
     | some (some want) => if rv == 0 then (if want == o.out then (none, "equal") else (some s!"plaintext: reference {hex want} token {hex o.out}", "differ")) else (some s!"the token refuses (rv={rv}) what the reference decrypts to {hex want}", "differ")
     | some none => if rv == 0 then (some s!"the token accepts (plaintext {hex o.out}) what the reference rejects (padding / authentication tag / length)", "differ") else (none, "both-refuse"))
  else if o.kind == "sign" then
    (if rv != 0 then (none, "failed") else
     match refMac o with
     | some want => if want == o.out then (none, "equal") else (some s!"MAC: reference {hex want} token {hex o.out}", "differ")
     | none => match refVerify o o.out with
       | some true => (none, "verifies")
       | some false => (some s!"the signature {hex o.out} does not verify under the reference implementation", "differ")
       | none => (none, "notcomputed"))
  else if o.kind == "verify" then
    (match sigArg.bind (refVerify o) with
     | none => (none, "notcomputed")
     | some ok =>
       let tokOk := rv == 0
       if ok == tokOk then (none, if ok then "both-accept" else "both-reject")
       else (some (if tokOk then "the token ACCEPTS a signature / MAC the reference rejects" else s!"the token rejects (rv={rv}) a signature / MAC the reference accepts"), "differ"))
  else if o.kind == "digest" then
    (if rv != 0 then (none, "failed") else
     match refDigest o with
     | some want => if want == o.out then (none, "equal") else (some s!"digest: reference {hex want} token {hex o.out}", "differ")
     | none => (none, "notcomputed"))
  else (none, "unknown")

def hexArg (w : String) : Bytes := if w == "." || w == "-" then [] else (parseHex w).getD []

/-- output bytes of a result `rv h len data …` (only when the call returned data) -/
def outData (res : List String) : Option Bytes :=
  match res with
  | _ :: _ :: _ :: d :: _ => if d == "-" || d.startsWith "W" then none else some (hexArg d)
  | _ => none

/-- one transcript pair.  Returns the new monitor state and, when an operation completed, (disagreement?, outcome class) -/
def step (st : State) (m : Mon) (op res : List String) : Mon × Option (Option String × String) :=
  let rv := (res.head?.bind parseNat?).getD 999
  let h := ((res.getD 1 "").toNat?).getD 0
  let finish (o : MonOp) (sig : Option Bytes) : Mon × Option (Option String × String) :=
    let (d, cls) := judgeFinish o rv sig
    (m.drop h, some (d, s!"{o.kind}:{String.ofList (Nat.toDigits 16 o.mech)}:{cls}"))
  -- what the token discloses about keys the model did not make: remembered for the reference computations
  if op.headD "" == "getattr" then
    match resolveObj st (((res.getD 2 "").toNat?).getD 0) with
    | none => (m, none)
    | some (_, ob) =>
      let add := (res.drop 3).filterMap fun w =>
        match w.splitOn ":" with
        | [ty, _, d] => if d == "-" then none else
            match (parseHex ("0" ++ ty)).orElse (fun _ => parseHex ty), parseHex d with
            | some tb, some v => some ((ob.oid, bytesToNat tb), v)
            | _, _ => none
        | _ => none
      ({ m with learned := add ++ m.learned.filter (fun e => !add.any (·.1 == e.1)) }, none)
  else if op.headD "" == "genpair" then
    match res with
    | [rvw, _, h1, h2] =>
      if rvw != "0" then (m, none) else
      match resolveObj st (h1.toNat?.getD 0), resolveObj st (h2.toNat?.getD 0) with
      | some (_, pubO), some (_, prvO) => ({ m with pairs := (prvO.oid, pubO.oid) :: m.pairs }, none)
      | _, _ => (m, none)
    | _ => (m, none)
  else
  match op with
  | [opn, _, mt, _] =>
    if ["encinit", "decinit", "siginit", "verinit"].contains opn then
      if rv != 0 then (m, none) else
      match parseMechTok mt with
      | none => (m, none)
      | some (mech, p) =>
        let kobj := (resolveObj st (((res.getD 2 "").toNat?).getD 0)).map (·.2)
        let key := kobj.map m.attrsOf
        let pub0 : Option Attrs := kobj.bind fun ko => (m.pairs.lookup ko.oid).bind fun po => (st.objs.find? (·.oid == po)).map m.attrsOf
        -- for an RSA PUBLIC key: the attributes of an object with the same modulus that carries the private exponent (the peer the reference decrypts with)
        let peer : Option Attrs := key.bind fun ka => (attrBytes ka 0x120).bind fun n =>
          if (attrBytes ka 0x123).isSome then none else
          (st.objs.find? (fun ob => attrBytes (m.attrsOf ob) 0x120 == some n && (attrBytes (m.attrsOf ob) 0x123).isSome)).map m.attrsOf
        let pub : Option Attrs := if opn == "encinit" then peer.orElse (fun _ => pub0) else pub0
        let kind := if opn == "encinit" then "enc" else if opn == "decinit" then "dec" else if opn == "siginit" then "sign" else "verify"
        (m.set h { kind := kind, mech := mech, p := p, key := key, pub := pub }, none)
    else if ["enc", "dec", "sign", "digest"].contains opn then
      -- single-part: op h data cap
      match m.get h with
      | none => (m, none)
      | some o =>
        if o.kind != opn then (m, none)               -- a call of another kind: answered CKR_OPERATION_NOT_INITIALIZED, the running operation is untouched (C12)
        -- a single-part call on an operation that already absorbed C_*Update data is outside what PKCS#11 allows the application to do ("C_Encrypt cannot be used to
        -- terminate a multi-part operation"); the token accepts it and forgets the buffered bytes; no property speaks about it: the operation is not followed any further
        else if !o.inp.isEmpty || !o.out.isEmpty then (m.drop h, none)
        else if rv == 0x150 then (m, none)
        else if rv != 0 && o.mech == 0x1086 then (m.drop h, none)      -- CTR: the token refuses input that would wrap a narrow counter; the reference has no such notion
        else if rv != 0 then (m.drop h, if opn == "dec" then (finish { o with inp := o.inp ++ hexArg mt } none).2 else none)
        else match outData res with
          | none => (m, none)                           -- length query
          | some d => finish { o with inp := o.inp ++ hexArg mt, out := o.out ++ d } none
    else if ["encupd", "decupd"].contains opn then
      match m.get h with
      | none => (m, none)
      | some o =>
        if o.kind ++ "upd" != opn then (m, none)
        else if rv == 0x150 then (m, none)
        else if rv != 0 then (m.drop h, none)
        else match outData res with
          | none => (m, none)
          | some d => (m.set h { o with inp := o.inp ++ hexArg mt, out := o.out ++ d }, none)
    else if opn == "verify" then
      -- verify h data sig
      match m.get h with
      | none => (m, none)
      | some o => if o.kind != "verify" then (m, none) else finish { o with inp := o.inp ++ hexArg mt } (some (hexArg (op.getD 3 ".")))
    else (m, none)
  | [opn, _, a] =>
    if opn == "diginit" then
      if rv != 0 then (m, none) else
      match parseMechTok a with
      | some (mech, p) => (m.set h { kind := "digest", mech := mech, p := p, key := none }, none)
      | none => (m, none)
    else if ["sigupd", "verupd", "digupd"].contains opn then
      match m.get h with
      | none => (m, none)
      | some o =>
        if (o.kind == "sign" && opn != "sigupd") || (o.kind == "verify" && opn != "verupd") || (o.kind == "digest" && opn != "digupd") || o.kind == "enc" || o.kind == "dec" then (m, none) else
        if rv == 0 then (m.set h { o with inp := o.inp ++ hexArg a }, none) else (m.drop h, none)
    else if ["encfinal", "decfinal", "sigfinal", "digfinal"].contains opn then
      match m.get h with
      | none => (m, none)
      | some o =>
        if (o.kind == "enc" && opn != "encfinal") || (o.kind == "dec" && opn != "decfinal") || (o.kind == "sign" && opn != "sigfinal") || (o.kind == "digest" && opn != "digfinal") || o.kind == "verify" then (m, none) else
        if rv == 0x150 then (m, none)
        else if rv != 0 && o.mech == 0x1086 then (m.drop h, none)
        else if rv != 0 then (if opn == "decfinal" then finish o none else (m.drop h, none))
        else match outData res with
          | none => (m, none)
          | some d => finish { o with out := o.out ++ d } none
    else if opn == "verfinal" then
      match m.get h with
      | none => (m, none)
      | some o => if o.kind != "verify" then (m, none) else finish o (some (hexArg a))
    else if opn == "digkey" then
      -- C_DigestKey feeds the key's VALUE into the running digest like C_DigestUpdate does; when the model does not hold the value (or the call failed) the
      -- operation is no longer followed
      match m.get h with
      | none => (m, none)
      | some o =>
        if o.kind != "digest" then (m, none)
        else if rv != 0 then (m.drop h, none)
        else
          match (resolveObj st (((res.getD 2 "").toNat?).getD 0)).bind (fun x => knownValue x.2.attrs) with
          | some v => (m.set h { o with inp := o.inp ++ v }, none)
          | none => (m.drop h, none)
    else (m, none)
  | _ => (m, none)

end Shm.CryptoMon
