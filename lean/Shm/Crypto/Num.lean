/-
  Big-number helpers for the reference computations: byte strings as big-endian naturals, modular exponentiation (DH, RSA), and the
  NIST P-256 group (ECDH, ECDSA verification) in affine coordinates over `Nat`.
-/
import Shm.Crypto.SHA256
namespace Shm.Crypto

def bytesToNat (b : Bytes) : Nat := b.foldl (fun acc x => acc * 256 + x.toNat) 0

/-- big-endian, exactly `len` bytes (leading zeros kept, high bytes dropped) -/
def natToBytes (n : Nat) (len : Nat) : Bytes := (List.range len).map fun i => UInt8.ofNat (n / 256 ^ (len - 1 - i))

def modPow (b e m : Nat) : Nat := Id.run do
  if m ≤ 1 then return 0
  let mut r := 1
  let mut x := b % m
  let mut k := e
  -- at most log2(e)+1 rounds
  for _ in [0 : e.log2 + 1] do
    if k % 2 == 1 then r := r * x % m
    x := x * x % m
    k := k / 2
  return r

/-- modular inverse for a prime modulus (Fermat) -/
def modInvP (a p : Nat) : Nat := modPow a (p - 2) p

namespace P256
def p : Nat := 0xffffffff00000001000000000000000000000000ffffffffffffffffffffffff
def a : Nat := p - 3
def b : Nat := 0x5ac635d8aa3a93e7b3ebbd55769886bc651d06b0cc53b0f63bce3c3e27d2604b
def n : Nat := 0xffffffff00000000ffffffffffffffffbce6faada7179e84f3b9cac2fc632551
def gx : Nat := 0x6b17d1f2e12c4247f8bce6e563a440f277037d812deb33a0f4a13945d898c296
def gy : Nat := 0x4fe342e2fe1a7f9b8ee7eb4a7c0f9e162bce33576b315ececbb6406837bf51f5

/-- affine point; `none` = point at infinity -/
abbrev Pt := Option (Nat × Nat)

def onCurve : Pt → Bool
  | none => true
  | some (x, y) => x < p && y < p && (y * y) % p == (x * x % p * x + a * x + b) % p

def add (P Q : Pt) : Pt :=
  match P, Q with
  | none, q => q
  | pp, none => pp
  | some (x1, y1), some (x2, y2) =>
    if x1 == x2 && (y1 + y2) % p == 0 then none
    else
      let l := if x1 == x2 && y1 == y2 then (3 * x1 % p * x1 + a) % p * modInvP (2 * y1 % p) p % p
               else (y2 + p - y1) % p * modInvP ((x2 + p - x1) % p) p % p
      let x3 := (l * l + 2 * p - x1 - x2) % p
      let y3 := (l * ((x1 + p - x3) % p) + p - y1) % p
      some (x3, y3)

def mul (k : Nat) (P : Pt) : Pt := Id.run do
  let mut r : Pt := none
  let mut q := P
  let mut kk := k
  for _ in [0 : k.log2 + 1] do
    if kk % 2 == 1 then r := add r q
    q := add q q
    kk := kk / 2
  return r

def G : Pt := some (gx, gy)
end P256

end Shm.Crypto
