/-
  AES key wrap: RFC 3394 (CKM_AES_KEY_WRAP) and RFC 5649 (CKM_AES_KEY_WRAP_PAD), over an abstract 16-byte block function.
-/
import Shm.Crypto.Modes
namespace Shm.Crypto

def be8w (t : Nat) : Bytes := u64Bytes t

/-- list update without bounds failure -/
def setAt (l : List Bytes) (i : Nat) (v : Bytes) : List Bytes := l.set i v

/-- one step of the wrapping function W: `t` counts from 1 -/
def kwStep (E : Bytes → Bytes) (n : Nat) (s : Bytes × List Bytes) (t : Nat) : Bytes × List Bytes :=
  let i := (t - 1) % n
  let b := E (s.1 ++ s.2.getD i [])
  (xorBytes (b.take 8) (be8w t), setAt s.2 i (b.drop 8))

/-- one step of the unwrapping function W⁻¹ -/
def kuStep (D : Bytes → Bytes) (n : Nat) (s : Bytes × List Bytes) (t : Nat) : Bytes × List Bytes :=
  let i := (t - 1) % n
  let b := D (xorBytes s.1 (be8w t) ++ s.2.getD i [])
  (b.take 8, setAt s.2 i (b.drop 8))

/-- the counter values 1 … 6n in wrapping order -/
def kwTicks (n : Nat) : List Nat := (List.range (6 * n)).map (· + 1)

/-- W(A, R) -/
def kwW (E : Bytes → Bytes) (a : Bytes) (r : List Bytes) : Bytes × List Bytes := (kwTicks r.length).foldl (kwStep E r.length) (a, r)
/-- W⁻¹(A, R) -/
def kwWinv (D : Bytes → Bytes) (a : Bytes) (r : List Bytes) : Bytes × List Bytes := (kwTicks r.length).reverse.foldl (kuStep D r.length) (a, r)

def kwIV : Bytes := [0xA6, 0xA6, 0xA6, 0xA6, 0xA6, 0xA6, 0xA6, 0xA6]

/-- RFC 3394 wrap of a plaintext whose length is a multiple of 8 and at least 16 -/
def rfc3394Wrap (E : Bytes → Bytes) (p : Bytes) : Bytes :=
  let (a, r) := kwW E kwIV (chunks 8 p)
  a ++ r.flatten

/-- RFC 3394 unwrap; `none`: bad length or integrity check failed -/
def rfc3394Unwrap (D : Bytes → Bytes) (c : Bytes) : Option Bytes :=
  if c.length < 24 || c.length % 8 != 0 then none else
  let (a, r) := kwWinv D (c.take 8) (chunks 8 (c.drop 8))
  if a == kwIV then some r.flatten else none

/-- `RFC3394Pad` of SoftHSM.cpp: zero bytes up to the next multiple of 8 (the format carries no length) -/
def zeroPad8 (p : Bytes) : Bytes := p ++ List.replicate ((8 - p.length % 8) % 8) 0

def nat32Bytes (n : Nat) : Bytes := [UInt8.ofNat (n / 2^24), UInt8.ofNat (n / 2^16), UInt8.ofNat (n / 2^8), UInt8.ofNat n]

/-- RFC 5649 wrap with padding -/
def rfc5649Wrap (E : Bytes → Bytes) (p : Bytes) : Bytes :=
  let aiv : Bytes := [0xA6, 0x59, 0x59, 0xA6] ++ nat32Bytes p.length
  let padded := zeroPad8 p
  if padded.length == 8 then E (aiv ++ padded)
  else let (a, r) := kwW E aiv (chunks 8 padded); a ++ r.flatten

def rfc5649Unwrap (D : Bytes → Bytes) (c : Bytes) : Option Bytes :=
  if c.length < 16 || c.length % 8 != 0 then none else
  let (a, body) : Bytes × Bytes :=
    if c.length == 16 then let b := D c; (b.take 8, b.drop 8)
    else let (a, r) := kwWinv D (c.take 8) (chunks 8 (c.drop 8)); (a, r.flatten)
  if a.take 4 != [0xA6, 0x59, 0x59, 0xA6] then none else
  let mli := (a.drop 4).foldl (fun acc b => acc * 256 + b.toNat) 0
  if mli > body.length || mli + 8 ≤ body.length || mli == 0 then none
  else if (body.drop mli).all (· == 0) then some (body.take mli) else none

end Shm.Crypto
