/-
  RSA paddings of PKCS#1 v2.2 (RFC 8017) as executable specifications: MGF1, EMSA-PSS verification, EME-OAEP and EME-PKCS1-v1_5 decoding.
  Used by the crypto monitor to verify the token's PSS signatures and to decrypt the token's RSA ciphertexts with the private exponent the model knows.
-/
import Shm.Crypto.More
namespace Shm.Crypto
open Shm

/-- MGF1 (RFC 8017 B.2.1) -/
def mgf1 (hash : Bytes → Bytes) (seed : Bytes) (len : Nat) : Bytes :=
  let hLen := (hash []).length
  let n := if hLen == 0 then 0 else (len + hLen - 1) / hLen
  ((List.range n).flatMap fun c => hash (seed ++ natToBytes c 4)).take len

/-- EMSA-PSS-VERIFY (RFC 8017 9.1.2) of an already computed message hash `mHash` against the encoded message `em` of `emBits` bits -/
def emsaPssVerify (hash : Bytes → Bytes) (mgfHash : Bytes → Bytes) (mHash em : Bytes) (emBits sLen : Nat) : Bool :=
  let hLen := (hash []).length
  let emLen := (emBits + 7) / 8
  if em.length != emLen || mHash.length != hLen then false
  else if emLen < hLen + sLen + 2 then false
  else if em.getLast? != some 0xbc then false
  else
    let maskedDB := em.take (emLen - hLen - 1)
    let h := (em.drop (emLen - hLen - 1)).take hLen
    let zeroBits := 8 * emLen - emBits
    let topMask : UInt8 := UInt8.ofNat (0xFF >>> zeroBits)
    if (maskedDB.headD 0) &&& (~~~ topMask) != 0 then false
    else
      let db0 := xorBytes maskedDB (mgf1 mgfHash h (emLen - hLen - 1))
      let db := match db0 with | [] => [] | x :: r => (x &&& topMask) :: r
      let psLen := emLen - hLen - sLen - 2
      if (db.take psLen).any (· != 0) || db.getD psLen 0 != 0x01 then false
      else
        let salt := db.drop (psLen + 1)
        hash (List.replicate 8 0 ++ mHash ++ salt) == h

/-- EME-OAEP decoding (RFC 8017 7.1.2 step 3) with an empty label; `none`: decryption error -/
def emeOaepDecode (hash : Bytes → Bytes) (mgfHash : Bytes → Bytes) (em : Bytes) : Option Bytes :=
  let hLen := (hash []).length
  let k := em.length
  if k < 2 * hLen + 2 then none
  else
    let y := em.headD 1
    let maskedSeed := (em.drop 1).take hLen
    let maskedDB := em.drop (1 + hLen)
    let seed := xorBytes maskedSeed (mgf1 mgfHash maskedDB hLen)
    let db := xorBytes maskedDB (mgf1 mgfHash seed (k - hLen - 1))
    let lHash := db.take hLen
    let rest := (db.drop hLen).dropWhile (· == 0)
    if y != 0 || lHash != hash [] then none
    else match rest with
      | 0x01 :: m => some m
      | _ => none

/-- EME-PKCS1-v1_5 decoding (RFC 8017 7.2.2 step 3): 00 02 PS 00 M with at least eight non-zero padding bytes -/
def emePkcs1Decode (em : Bytes) : Option Bytes :=
  match em with
  | 0x00 :: 0x02 :: r =>
    let ps := r.takeWhile (· != 0)
    if ps.length < 8 then none
    else match r.drop ps.length with
      | 0x00 :: m => some m
      | _ => none
  | _ => none

/-- the private-key operation `c^d mod n` as k bytes -/
def rsaPrivate (n d : Nat) (k : Nat) (c : Bytes) : Bytes := natToBytes (modPow (bytesToNat c) d n) k

/-- EME-OAEP encoding (RFC 8017 7.1.1 step 2) with an empty label and a given seed, into `k` bytes -/
def emeOaepEncode (hash mgfHash : Bytes → Bytes) (m seed : Bytes) (k : Nat) : Bytes :=
  let hLen := (hash []).length
  let db := hash [] ++ List.replicate (k - m.length - 2 * hLen - 2) 0 ++ [0x01] ++ m
  let maskedDB := xorBytes db (mgf1 mgfHash seed (k - hLen - 1))
  let maskedSeed := xorBytes seed (mgf1 mgfHash maskedDB hLen)
  0x00 :: maskedSeed ++ maskedDB


/-- EMSA-PSS encoding (RFC 8017 9.1.1) of a message hash with a given salt -/
def emsaPssEncode (hash mgfHash : Bytes → Bytes) (mHash salt : Bytes) (emBits : Nat) : Bytes :=
  let hLen := (hash []).length
  let emLen := (emBits + 7) / 8
  let h := hash (List.replicate 8 0 ++ mHash ++ salt)
  let psLen := emLen - hLen - salt.length - 2
  let db := List.replicate psLen 0 ++ 0x01 :: salt
  let masked0 := xorBytes db (mgf1 mgfHash h (emLen - hLen - 1))
  let topMask : UInt8 := UInt8.ofNat (0xFF >>> (8 * emLen - emBits))
  let masked := match masked0 with | [] => [] | x :: r => (x &&& topMask) :: r
  masked ++ h ++ [0xbc]


end Shm.Crypto
