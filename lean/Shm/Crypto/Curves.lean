/-
  Named prime curves for the reference ECDSA verification (Shm/Crypto/Ecc.lean): domain parameters as OpenSSL's `ecparam -param_enc explicit` prints them, captured ONCE by
  tools (this file is static; the generator point of every curve was checked to lie on the curve when the table was made, and `Ecc.lean` re-checks it by `decide`).
-/
namespace Shm.Crypto

structure Curve where
  name : String
  oid : List UInt8      -- DER of the OBJECT IDENTIFIER (the value of CKA_EC_PARAMS)
  p : Nat
  a : Nat
  b : Nat
  n : Nat
  gx : Nat
  gy : Nat
  deriving Repr

def namedCurves : List Curve := [
  { name := "prime256v1", oid := [0x06, 0x08, 0x2a, 0x86, 0x48, 0xce, 0x3d, 0x03, 0x01, 0x07],
    p := 0xffffffff00000001000000000000000000000000ffffffffffffffffffffffff, a := 0xffffffff00000001000000000000000000000000fffffffffffffffffffffffc, b := 0x5ac635d8aa3a93e7b3ebbd55769886bc651d06b0cc53b0f63bce3c3e27d2604b,
    n := 0xffffffff00000000ffffffffffffffffbce6faada7179e84f3b9cac2fc632551,
    gx := 0x6b17d1f2e12c4247f8bce6e563a440f277037d812deb33a0f4a13945d898c296,
    gy := 0x4fe342e2fe1a7f9b8ee7eb4a7c0f9e162bce33576b315ececbb6406837bf51f5 },
  { name := "secp384r1", oid := [0x06, 0x05, 0x2b, 0x81, 0x04, 0x00, 0x22],
    p := 0xfffffffffffffffffffffffffffffffffffffffffffffffffffffffffffffffeffffffff0000000000000000ffffffff, a := 0xfffffffffffffffffffffffffffffffffffffffffffffffffffffffffffffffeffffffff0000000000000000fffffffc, b := 0xb3312fa7e23ee7e4988e056be3f82d19181d9c6efe8141120314088f5013875ac656398d8a2ed19d2a85c8edd3ec2aef,
    n := 0xffffffffffffffffffffffffffffffffffffffffffffffffc7634d81f4372ddf581a0db248b0a77aecec196accc52973,
    gx := 0xaa87ca22be8b05378eb1c71ef320ad746e1d3b628ba79b9859f741e082542a385502f25dbf55296c3a545e3872760ab7,
    gy := 0x3617de4a96262c6f5d9e98bf9292dc29f8f41dbd289a147ce9da3113b5f0b8c00a60b1ce1d7e819d7a431d7c90ea0e5f },
  { name := "secp521r1", oid := [0x06, 0x05, 0x2b, 0x81, 0x04, 0x00, 0x23],
    p := 0x1ffffffffffffffffffffffffffffffffffffffffffffffffffffffffffffffffffffffffffffffffffffffffffffffffffffffffffffffffffffffffffffffffff, a := 0x1fffffffffffffffffffffffffffffffffffffffffffffffffffffffffffffffffffffffffffffffffffffffffffffffffffffffffffffffffffffffffffffffffc, b := 0x51953eb9618e1c9a1f929a21a0b68540eea2da725b99b315f3b8b489918ef109e156193951ec7e937b1652c0bd3bb1bf073573df883d2c34f1ef451fd46b503f00,
    n := 0x1fffffffffffffffffffffffffffffffffffffffffffffffffffffffffffffffffa51868783bf2f966b7fcc0148f709a5d03bb5c9b8899c47aebb6fb71e91386409,
    gx := 0xc6858e06b70404e9cd9e3ecb662395b4429c648139053fb521f828af606b4d3dbaa14b5e77efe75928fe1dc127a2ffa8de3348b3c1856a429bf97e7e31c2e5bd66,
    gy := 0x11839296a789a3bc0045c8a5fb42c7d1bd998f54449579b446817afbd17273e662c97ee72995ef42640c550b9013fad0761353c7086a272c24088be94769fd16650 },
  { name := "secp224r1", oid := [0x06, 0x05, 0x2b, 0x81, 0x04, 0x00, 0x21],
    p := 0xffffffffffffffffffffffffffffffff000000000000000000000001, a := 0xfffffffffffffffffffffffffffffffefffffffffffffffffffffffe, b := 0xb4050a850c04b3abf54132565044b0b7d7bfd8ba270b39432355ffb4,
    n := 0xffffffffffffffffffffffffffff16a2e0b8f03e13dd29455c5c2a3d,
    gx := 0xb70e0cbd6bb4bf7f321390b94a03c1d356c21122343280d6115c1d21,
    gy := 0xbd376388b5f723fb4c22dfe6cd4375a05a07476444d5819985007e34 },
  { name := "secp160r1", oid := [0x06, 0x05, 0x2b, 0x81, 0x04, 0x00, 0x08],
    p := 0xffffffffffffffffffffffffffffffff7fffffff, a := 0xffffffffffffffffffffffffffffffff7ffffffc, b := 0x1c97befc54bd7a8b65acf89f81d4d4adc565fa45,
    n := 0x100000000000000000001f4c8f927aed3ca752257,
    gx := 0x4a96b5688ef573284664698968c38bb913cbfc82,
    gy := 0x23a628553168947d59dcc912042351377ac5fb32 },
  { name := "secp224k1", oid := [0x06, 0x05, 0x2b, 0x81, 0x04, 0x00, 0x20],
    p := 0xfffffffffffffffffffffffffffffffffffffffffffffffeffffe56d, a := 0x0, b := 0x5,
    n := 0x10000000000000000000000000001dce8d2ec6184caf0a971769fb1f7,
    gx := 0xa1455b334df099df30fc28a169a467e9e47075a90f7e650eb6b7a45c,
    gy := 0x7e089fed7fba344282cafbd6f7e319f7c0b0bd59e2ca4bdb556d61a5 },
  { name := "secp256k1", oid := [0x06, 0x05, 0x2b, 0x81, 0x04, 0x00, 0x0a],
    p := 0xfffffffffffffffffffffffffffffffffffffffffffffffffffffffefffffc2f, a := 0x0, b := 0x7,
    n := 0xfffffffffffffffffffffffffffffffebaaedce6af48a03bbfd25e8cd0364141,
    gx := 0x79be667ef9dcbbac55a06295ce870b07029bfcdb2dce28d959f2815b16f81798,
    gy := 0x483ada7726a3c4655da4fbfc0e1108a8fd17b448a68554199c47d08ffb10d4b8 },
  { name := "secp192k1", oid := [0x06, 0x05, 0x2b, 0x81, 0x04, 0x00, 0x1f],
    p := 0xfffffffffffffffffffffffffffffffffffffffeffffee37, a := 0x0, b := 0x3,
    n := 0xfffffffffffffffffffffffe26f2fc170f69466a74defd8d,
    gx := 0xdb4ff10ec057e9ae26b07d0280b7f4341da5d1b1eae06c7d,
    gy := 0x9b2f2f6d9c5628a7844163d015be86344082aa88d95e2f9d }]

end Shm.Crypto
