/-
  ECDSA verification over any named prime curve of Shm/Crypto/Curves.lean (short Weierstrass, affine arithmetic): the reference the crypto monitor checks the token's
  CKM_ECDSA signatures with on curves other than P-256 too.  The signature is r ‖ s, each of the octet length of the ORDER n (PKCS#11 / X9.62 raw form).
-/
import Shm.Crypto.Curves
import Shm.Crypto.Num
namespace Shm.Crypto
open Shm

namespace Curve
abbrev Pt := Option (Nat × Nat)

def onCurve (c : Curve) : Pt → Bool
  | none => true
  | some (x, y) => x < c.p && y < c.p && (y * y) % c.p == (x * x % c.p * x + c.a * x + c.b) % c.p

def add (c : Curve) (P Q : Pt) : Pt :=
  match P, Q with
  | none, q => q
  | pp, none => pp
  | some (x1, y1), some (x2, y2) =>
    let p := c.p
    if x1 == x2 && (y1 + y2) % p == 0 then none
    else
      let l := if x1 == x2 && y1 == y2 then (3 * x1 % p * x1 + c.a) % p * modInvP (2 * y1 % p) p % p
               else (y2 + p - y1) % p * modInvP ((x2 + p - x1) % p) p % p
      let x3 := (l * l + 2 * p - x1 - x2) % p
      let y3 := (l * ((x1 + p - x3) % p) + p - y1) % p
      some (x3, y3)

def mul (c : Curve) (k : Nat) (P : Pt) : Pt := Id.run do
  let mut r : Pt := none
  let mut q := P
  let mut kk := k
  for _ in [0 : k.log2 + 1] do
    if kk % 2 == 1 then r := c.add r q
    q := c.add q q
    kk := kk / 2
  return r

def G (c : Curve) : Pt := some (c.gx, c.gy)

/-- octet length of a number (at least 1) -/
def octets (n : Nat) : Nat := (n.log2 + 8) / 8

def fieldLen (c : Curve) : Nat := octets c.p
def orderLen (c : Curve) : Nat := octets c.n

/-- an uncompressed point `04 ‖ X ‖ Y`, possibly wrapped in a DER octet string (CKA_EC_POINT) -/
def parsePoint (c : Curve) (b : Bytes) : Option (Nat × Nat) :=
  let fl := c.fieldLen
  let raw := if b.length == 1 + 2 * fl then some b
             else if b.length == 3 + 2 * fl && b.take 2 == [0x04, UInt8.ofNat (1 + 2 * fl)] then some (b.drop 2)
             else if b.length == 4 + 2 * fl && b.take 3 == [0x04, 0x81, UInt8.ofNat (1 + 2 * fl)] then some (b.drop 3)
             else none
  raw.bind fun r => if r.headD 0 != 0x04 then none else some (bytesToNat ((r.drop 1).take fl), bytesToNat (r.drop (1 + fl)))

/-- ECDSA verification (X9.62): `hash` is the message representative (CKM_ECDSA signs the caller's hash), truncated to the bit length of n -/
def ecdsaVerify (c : Curve) (q : Nat × Nat) (hash sig : Bytes) : Bool :=
  let nl := c.orderLen
  if sig.length != 2 * nl then false else
  let r := bytesToNat (sig.take nl)
  let s := bytesToNat (sig.drop nl)
  if r == 0 || s == 0 || r ≥ c.n || s ≥ c.n then false else
  if !c.onCurve (some q) then false else
  let nbits := c.n.log2 + 1
  let e0 := bytesToNat hash
  let e := if hash.length * 8 > nbits then e0 >>> (hash.length * 8 - nbits) else e0
  let w := modPow s (c.n - 2) c.n
  let u1 := e % c.n * w % c.n
  let u2 := r * w % c.n
  match c.add (c.mul u1 c.G) (c.mul u2 (some q)) with
  | none => false
  | some (x, _) => x % c.n == r

end Curve

def curveByOid (oid : Bytes) : Option Curve := namedCurves.find? (·.oid == oid)

/-- every generator in the table lies on its curve -/
theorem namedCurves_generators_on_curve : namedCurves.all (fun c => c.onCurve c.G) = true := by decide +kernel

/-- what the ECDSA reference never accepts: a signature of the wrong length, r or s outside [1, n-1], a public point off the curve -/
theorem ecdsaVerify_guards (c : Curve) (q : Nat × Nat) (hash sig : Bytes) (h : c.ecdsaVerify q hash sig = true) :
    sig.length = 2 * c.orderLen ∧ 0 < bytesToNat (sig.take c.orderLen) ∧ bytesToNat (sig.take c.orderLen) < c.n ∧
    0 < bytesToNat (sig.drop c.orderLen) ∧ bytesToNat (sig.drop c.orderLen) < c.n ∧ c.onCurve (some q) = true := by
  unfold Curve.ecdsaVerify at h
  simp only [] at h
  split at h
  · exact absurd h (by simp)
  · rename_i hl
    split at h
    · exact absurd h (by simp)
    · rename_i hr
      split at h
      · exact absurd h (by simp)
      · rename_i hc
        simp only [bne_iff_ne, ne_eq, Decidable.not_not] at hl
        simp only [Bool.or_eq_true, beq_iff_eq, decide_eq_true_eq, not_or, Nat.not_le] at hr
        simp only [Bool.not_eq_true', Bool.not_eq_false] at hc
        refine ⟨hl, ?_, hr.1.2, ?_, hr.2, hc⟩ <;> omega

end Shm.Crypto
