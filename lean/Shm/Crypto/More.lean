/-
  More reference primitives, written from the standards: CTR and GCM (SP 800-38A/D), CMAC (SP 800-38B), SHA-384/512 (FIPS 180-4),
  RSASSA-PKCS1-v1_5 encoding (RFC 8017 9.2), ECDSA verification on P-256 (FIPS 186-4).
-/
import Shm.Crypto.Modes
import Shm.Crypto.SHA1
import Shm.Crypto.Num
namespace Shm.Crypto

/-! ### CTR -/

/-- increment the low `bits` bits of a 16-byte counter block (big endian), wrapping inside those bits -/
def ctrInc (bits : Nat) (cb : Bytes) : Bytes :=
  let v := bytesToNat cb
  let m := 2 ^ bits
  natToBytes ((v / m) * m + (v % m + 1) % m) 16

def ctrStream (E : Bytes → Bytes) (bits : Nat) : Nat → Bytes → List Bytes
  | 0, _ => []
  | n + 1, cb => E cb :: ctrStream E bits n (ctrInc bits cb)

def ctrCrypt (E : Bytes → Bytes) (bits : Nat) (cb : Bytes) (m : Bytes) : Bytes :=
  xorBytes m ((ctrStream E bits ((m.length + 15) / 16) cb).flatten)

/-! ### GCM -/

/-- multiplication in GF(2^128) with the GCM bit order, on naturals -/
def gfMul (x y : Nat) : Nat := Id.run do
  let r : Nat := 0xE1000000000000000000000000000000
  let mut z := 0
  let mut v := y
  for i in [0:128] do
    if (x >>> (127 - i)) % 2 == 1 then z := z ^^^ v
    v := if v % 2 == 1 then (v >>> 1) ^^^ r else v >>> 1
  return z

def pad16 (b : Bytes) : Bytes := b ++ List.replicate ((16 - b.length % 16) % 16) 0

def ghash (h : Nat) (data : Bytes) : Nat :=
  (chunks 16 data).foldl (fun y blk => gfMul (y ^^^ bytesToNat blk) h) 0

/-- J0 for an arbitrary IV -/
def gcmJ0 (h : Nat) (iv : Bytes) : Bytes :=
  if iv.length == 12 then iv ++ [0, 0, 0, 1]
  else natToBytes (ghash h (pad16 iv ++ natToBytes 0 8 ++ natToBytes (iv.length * 8) 8)) 16

/-- (ciphertext, full 16-byte tag) -/
def gcmEncrypt (E : Bytes → Bytes) (iv aad pt : Bytes) : Bytes × Bytes :=
  let h := bytesToNat (E (List.replicate 16 0))
  let j0 := gcmJ0 h iv
  let ct := ctrCrypt E 32 (ctrInc 32 j0) pt
  let s := ghash h (pad16 aad ++ pad16 ct ++ natToBytes (aad.length * 8) 8 ++ natToBytes (ct.length * 8) 8)
  (ct, xorBytes (natToBytes s 16) (E j0))

/-- `none`: the tag does not match -/
def gcmDecrypt (E : Bytes → Bytes) (iv aad ctTag : Bytes) (tagLen : Nat) : Option Bytes :=
  if ctTag.length < tagLen then none else
  let ct := ctTag.take (ctTag.length - tagLen)
  let tag := ctTag.drop (ctTag.length - tagLen)
  let h := bytesToNat (E (List.replicate 16 0))
  let j0 := gcmJ0 h iv
  let s := ghash h (pad16 aad ++ pad16 ct ++ natToBytes (aad.length * 8) 8 ++ natToBytes (ct.length * 8) 8)
  if (xorBytes (natToBytes s 16) (E j0)).take tagLen == tag then some (ctrCrypt E 32 (ctrInc 32 j0) ct) else none

/-! ### CMAC -/

def dbl128 (b : Bytes) : Bytes :=
  let v := bytesToNat b
  natToBytes (((v * 2) % 2 ^ 128) ^^^ (if v ≥ 2 ^ 127 then 0x87 else 0)) 16

def cmac (E : Bytes → Bytes) (m : Bytes) : Bytes :=
  let k1 := dbl128 (E (List.replicate 16 0))
  let k2 := dbl128 k1
  let n := if m.isEmpty then 1 else (m.length + 15) / 16
  let complete := !m.isEmpty && m.length % 16 == 0
  let head := m.take ((n - 1) * 16)
  let last := m.drop ((n - 1) * 16)
  let lastBlk := if complete then xorBytes last k1 else xorBytes (last ++ [0x80] ++ List.replicate (15 - last.length) 0) k2
  let x := (chunks 16 head).foldl (fun x blk => E (xorBytes x blk)) (List.replicate 16 0)
  E (xorBytes x lastBlk)

/-! ### SHA-512 / SHA-384 -/

def sha512K : Array UInt64 := #[
  0x428a2f98d728ae22, 0x7137449123ef65cd, 0xb5c0fbcfec4d3b2f, 0xe9b5dba58189dbbc, 0x3956c25bf348b538, 0x59f111f1b605d019, 0x923f82a4af194f9b, 0xab1c5ed5da6d8118,
  0xd807aa98a3030242, 0x12835b0145706fbe, 0x243185be4ee4b28c, 0x550c7dc3d5ffb4e2, 0x72be5d74f27b896f, 0x80deb1fe3b1696b1, 0x9bdc06a725c71235, 0xc19bf174cf692694,
  0xe49b69c19ef14ad2, 0xefbe4786384f25e3, 0x0fc19dc68b8cd5b5, 0x240ca1cc77ac9c65, 0x2de92c6f592b0275, 0x4a7484aa6ea6e483, 0x5cb0a9dcbd41fbd4, 0x76f988da831153b5,
  0x983e5152ee66dfab, 0xa831c66d2db43210, 0xb00327c898fb213f, 0xbf597fc7beef0ee4, 0xc6e00bf33da88fc2, 0xd5a79147930aa725, 0x06ca6351e003826f, 0x142929670a0e6e70,
  0x27b70a8546d22ffc, 0x2e1b21385c26c926, 0x4d2c6dfc5ac42aed, 0x53380d139d95b3df, 0x650a73548baf63de, 0x766a0abb3c77b2a8, 0x81c2c92e47edaee6, 0x92722c851482353b,
  0xa2bfe8a14cf10364, 0xa81a664bbc423001, 0xc24b8b70d0f89791, 0xc76c51a30654be30, 0xd192e819d6ef5218, 0xd69906245565a910, 0xf40e35855771202a, 0x106aa07032bbd1b8,
  0x19a4c116b8d2d0c8, 0x1e376c085141ab53, 0x2748774cdf8eeb99, 0x34b0bcb5e19b48a8, 0x391c0cb3c5c95a63, 0x4ed8aa4ae3418acb, 0x5b9cca4f7763e373, 0x682e6ff3d6b2b8a3,
  0x748f82ee5defb2fc, 0x78a5636f43172f60, 0x84c87814a1f0ab72, 0x8cc702081a6439ec, 0x90befffa23631e28, 0xa4506cebde82bde9, 0xbef9a3f7b2c67915, 0xc67178f2e372532b,
  0xca273eceea26619c, 0xd186b8c721c0c207, 0xeada7dd6cde0eb1e, 0xf57d4f7fee6ed178, 0x06f067aa72176fba, 0x0a637dc5a2c898a6, 0x113f9804bef90dae, 0x1b710b35131c471b,
  0x28db77f523047d84, 0x32caab7b40c72493, 0x3c9ebe0a15c9bebc, 0x431d67c49c100d4c, 0x4cc5d4becb3e42b6, 0x597f299cfc657e2a, 0x5fcb6fab3ad6faec, 0x6c44198c4a475817]

@[inline] def rotr64 (x : UInt64) (n : UInt64) : UInt64 := (x >>> n) ||| (x <<< (64 - n))

def words64 : Bytes → List UInt64
  | a :: b :: c :: d :: e :: f :: g :: h :: r =>
    ((a.toUInt64 <<< 56) ||| (b.toUInt64 <<< 48) ||| (c.toUInt64 <<< 40) ||| (d.toUInt64 <<< 32) ||| (e.toUInt64 <<< 24) ||| (f.toUInt64 <<< 16) ||| (g.toUInt64 <<< 8) ||| h.toUInt64) :: words64 r
  | _ => []

def sha512Compress (h : Array UInt64) (blk : List UInt64) : Array UInt64 := Id.run do
  let mut w : Array UInt64 := blk.toArray
  for i in [16:80] do
    let w15 := w[i - 15]!
    let w2 := w[i - 2]!
    let s0 := rotr64 w15 1 ^^^ rotr64 w15 8 ^^^ (w15 >>> 7)
    let s1 := rotr64 w2 19 ^^^ rotr64 w2 61 ^^^ (w2 >>> 6)
    w := w.push (w[i - 16]! + s0 + w[i - 7]! + s1)
  let mut a := h[0]!; let mut b := h[1]!; let mut c := h[2]!; let mut d := h[3]!
  let mut e := h[4]!; let mut f := h[5]!; let mut g := h[6]!; let mut hh := h[7]!
  for i in [0:80] do
    let s1 := rotr64 e 14 ^^^ rotr64 e 18 ^^^ rotr64 e 41
    let ch := (e &&& f) ^^^ ((~~~ e) &&& g)
    let t1 := hh + s1 + ch + sha512K[i]! + w[i]!
    let s0 := rotr64 a 28 ^^^ rotr64 a 34 ^^^ rotr64 a 39
    let mj := (a &&& b) ^^^ (a &&& c) ^^^ (b &&& c)
    let t2 := s0 + mj
    hh := g; g := f; f := e; e := d + t1; d := c; c := b; b := a; a := t1 + t2
  return #[h[0]! + a, h[1]! + b, h[2]! + c, h[3]! + d, h[4]! + e, h[5]! + f, h[6]! + g, h[7]! + hh]

def u64BytesOf (x : UInt64) : Bytes := u64Bytes x.toNat

def sha512Core (iv : Array UInt64) (msg : Bytes) : Bytes :=
  let k := (128 - (msg.length + 17) % 128) % 128
  let padded := msg ++ [0x80] ++ List.replicate k 0 ++ natToBytes (msg.length * 8) 16
  let h := (chunks 128 padded).foldl (fun h blk => sha512Compress h (words64 blk)) iv
  h.toList.flatMap u64BytesOf

def sha512 (m : Bytes) : Bytes :=
  sha512Core #[0x6a09e667f3bcc908, 0xbb67ae8584caa73b, 0x3c6ef372fe94f82b, 0xa54ff53a5f1d36f1, 0x510e527fade682d1, 0x9b05688c2b3e6c1f, 0x1f83d9abfb41bd6b, 0x5be0cd19137e2179] m
def sha384 (m : Bytes) : Bytes :=
  (sha512Core #[0xcbbb9d5dc1059ed8, 0x629a292a367cd507, 0x9159015a3070dd17, 0x152fecd8f70e5939, 0x67332667ffc00b31, 0x8eb44a8768581511, 0xdb0c2e0d64f98fa7, 0x47b5481dbefa4fa4] m).take 48

/-- HMAC over a hash with 128-byte blocks -/
def hmac128 (hash : Bytes → Bytes) (key msg : Bytes) : Bytes :=
  let k0 := if key.length > 128 then hash key else key
  let k := k0 ++ List.replicate (128 - k0.length) 0
  hash (k.map (· ^^^ 0x5c) ++ hash (k.map (· ^^^ 0x36) ++ msg))

/-! ### RSA signatures with PKCS#1 v1.5 padding -/

def digestInfoPrefix (hashName : String) : Bytes :=
  if hashName == "sha1" then [0x30, 0x21, 0x30, 0x09, 0x06, 0x05, 0x2b, 0x0e, 0x03, 0x02, 0x1a, 0x05, 0x00, 0x04, 0x14]
  else if hashName == "sha224" then [0x30, 0x2d, 0x30, 0x0d, 0x06, 0x09, 0x60, 0x86, 0x48, 0x01, 0x65, 0x03, 0x04, 0x02, 0x04, 0x05, 0x00, 0x04, 0x1c]
  else if hashName == "sha256" then [0x30, 0x31, 0x30, 0x0d, 0x06, 0x09, 0x60, 0x86, 0x48, 0x01, 0x65, 0x03, 0x04, 0x02, 0x01, 0x05, 0x00, 0x04, 0x20]
  else if hashName == "sha384" then [0x30, 0x41, 0x30, 0x0d, 0x06, 0x09, 0x60, 0x86, 0x48, 0x01, 0x65, 0x03, 0x04, 0x02, 0x02, 0x05, 0x00, 0x04, 0x30]
  else if hashName == "sha512" then [0x30, 0x51, 0x30, 0x0d, 0x06, 0x09, 0x60, 0x86, 0x48, 0x01, 0x65, 0x03, 0x04, 0x02, 0x03, 0x05, 0x00, 0x04, 0x40]
  else []

/-- EMSA-PKCS1-v1_5 around an arbitrary payload `t` -/
def emsaPkcs1 (t : Bytes) (k : Nat) : Option Bytes :=
  if k < t.length + 11 then none else some ([0x00, 0x01] ++ List.replicate (k - t.length - 3) 0xFF ++ [0x00] ++ t)

/-- what the public operation recovers from a signature: `s^e mod n` as k bytes -/
def rsaPublic (n e : Nat) (k : Nat) (sig : Bytes) : Bytes := natToBytes (modPow (bytesToNat sig) e n) k

/-! ### ECDSA on P-256 -/

def ecdsaVerifyP256 (q : Nat × Nat) (hash sig : Bytes) : Bool :=
  if sig.length != 64 then false else
  let r := bytesToNat (sig.take 32)
  let s := bytesToNat (sig.drop 32)
  if r == 0 || s == 0 || r ≥ P256.n || s ≥ P256.n then false else
  let e := bytesToNat (hash.take 32)
  let w := modPow s (P256.n - 2) P256.n
  let u1 := e * w % P256.n
  let u2 := r * w % P256.n
  match P256.add (P256.mul u1 P256.G) (P256.mul u2 (some q)) with
  | none => false
  | some (x, _) => x % P256.n == r

end Shm.Crypto
