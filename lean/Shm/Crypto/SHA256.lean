/-
  SHA-256 (FIPS 180-4), written from the standard: the independent implementation used by the store decoder (PBE of the PIN blobs)
  and by the C10 reference computations.
-/
namespace Shm.Crypto

abbrev Bytes := List UInt8

def sha256K : Array UInt32 := #[
  0x428a2f98, 0x71374491, 0xb5c0fbcf, 0xe9b5dba5, 0x3956c25b, 0x59f111f1, 0x923f82a4, 0xab1c5ed5,
  0xd807aa98, 0x12835b01, 0x243185be, 0x550c7dc3, 0x72be5d74, 0x80deb1fe, 0x9bdc06a7, 0xc19bf174,
  0xe49b69c1, 0xefbe4786, 0x0fc19dc6, 0x240ca1cc, 0x2de92c6f, 0x4a7484aa, 0x5cb0a9dc, 0x76f988da,
  0x983e5152, 0xa831c66d, 0xb00327c8, 0xbf597fc7, 0xc6e00bf3, 0xd5a79147, 0x06ca6351, 0x14292967,
  0x27b70a85, 0x2e1b2138, 0x4d2c6dfc, 0x53380d13, 0x650a7354, 0x766a0abb, 0x81c2c92e, 0x92722c85,
  0xa2bfe8a1, 0xa81a664b, 0xc24b8b70, 0xc76c51a3, 0xd192e819, 0xd6990624, 0xf40e3585, 0x106aa070,
  0x19a4c116, 0x1e376c08, 0x2748774c, 0x34b0bcb5, 0x391c0cb3, 0x4ed8aa4a, 0x5b9cca4f, 0x682e6ff3,
  0x748f82ee, 0x78a5636f, 0x84c87814, 0x8cc70208, 0x90befffa, 0xa4506ceb, 0xbef9a3f7, 0xc67178f2]

@[inline] def rotr32 (x : UInt32) (n : UInt32) : UInt32 := (x >>> n) ||| (x <<< (32 - n))

def be32 (a b c d : UInt8) : UInt32 :=
  (a.toUInt32 <<< 24) ||| (b.toUInt32 <<< 16) ||| (c.toUInt32 <<< 8) ||| d.toUInt32

def u32Bytes (x : UInt32) : Bytes := [(x >>> 24).toUInt8, (x >>> 16).toUInt8, (x >>> 8).toUInt8, x.toUInt8]

def u64Bytes (n : Nat) : Bytes :=
  [UInt8.ofNat (n / 2^56), UInt8.ofNat (n / 2^48), UInt8.ofNat (n / 2^40), UInt8.ofNat (n / 2^32),
   UInt8.ofNat (n / 2^24), UInt8.ofNat (n / 2^16), UInt8.ofNat (n / 2^8), UInt8.ofNat n]

/-- message padding: 0x80, zeros, 64-bit bit length -/
def mdPad64 (len : Nat) : Bytes :=
  let k := (64 - (len + 9) % 64) % 64
  [0x80] ++ List.replicate k 0 ++ u64Bytes (len * 8)

def words32 : Bytes → List UInt32
  | a :: b :: c :: d :: r => be32 a b c d :: words32 r
  | _ => []

def chunks {α : Type} (n : Nat) (l : List α) : List (List α) :=
  if h : n = 0 ∨ l.isEmpty then [] else l.take n :: chunks n (l.drop n)
termination_by l.length
decreasing_by
  simp only [List.length_drop]
  have : l.length ≠ 0 := by
    intro h0; apply h; right; simp [List.length_eq_zero_iff.mp h0]
  have : n ≠ 0 := fun h0 => h (Or.inl h0)
  omega

def sha256Schedule (blk : List UInt32) : Array UInt32 := Id.run do
  let mut w : Array UInt32 := blk.toArray
  for i in [16:64] do
    let w15 := w[i - 15]!
    let w2 := w[i - 2]!
    let s0 := rotr32 w15 7 ^^^ rotr32 w15 18 ^^^ (w15 >>> 3)
    let s1 := rotr32 w2 17 ^^^ rotr32 w2 19 ^^^ (w2 >>> 10)
    w := w.push (w[i - 16]! + s0 + w[i - 7]! + s1)
  return w

def sha256Compress (h : Array UInt32) (blk : List UInt32) : Array UInt32 := Id.run do
  let w := sha256Schedule blk
  let mut a := h[0]!; let mut b := h[1]!; let mut c := h[2]!; let mut d := h[3]!
  let mut e := h[4]!; let mut f := h[5]!; let mut g := h[6]!; let mut hh := h[7]!
  for i in [0:64] do
    let s1 := rotr32 e 6 ^^^ rotr32 e 11 ^^^ rotr32 e 25
    let ch := (e &&& f) ^^^ ((~~~ e) &&& g)
    let t1 := hh + s1 + ch + sha256K[i]! + w[i]!
    let s0 := rotr32 a 2 ^^^ rotr32 a 13 ^^^ rotr32 a 22
    let mj := (a &&& b) ^^^ (a &&& c) ^^^ (b &&& c)
    let t2 := s0 + mj
    hh := g; g := f; f := e; e := d + t1; d := c; c := b; b := a; a := t1 + t2
  return #[h[0]! + a, h[1]! + b, h[2]! + c, h[3]! + d, h[4]! + e, h[5]! + f, h[6]! + g, h[7]! + hh]

def sha256Init : Array UInt32 :=
  #[0x6a09e667, 0xbb67ae85, 0x3c6ef372, 0xa54ff53a, 0x510e527f, 0x9b05688c, 0x1f83d9ab, 0x5be0cd19]

def sha224Init : Array UInt32 :=
  #[0xc1059ed8, 0x367cd507, 0x3070dd17, 0xf70e5939, 0xffc00b31, 0x68581511, 0x64f98fa7, 0xbefa4fa4]

def sha256Core (iv : Array UInt32) (msg : Bytes) : Bytes :=
  let padded := msg ++ mdPad64 msg.length
  let h := (chunks 64 padded).foldl (fun h blk => sha256Compress h (words32 blk)) iv
  h.toList.flatMap u32Bytes

def sha256 (msg : Bytes) : Bytes := sha256Core sha256Init msg
def sha224 (msg : Bytes) : Bytes := (sha256Core sha224Init msg).take 28

/-- HMAC (RFC 2104) over a hash with 64-byte blocks -/
def hmac64 (hash : Bytes → Bytes) (key msg : Bytes) : Bytes :=
  let k0 := if key.length > 64 then hash key else key
  let k := k0 ++ List.replicate (64 - k0.length) 0
  hash (k.map (· ^^^ 0x5c) ++ hash (k.map (· ^^^ 0x36) ++ msg))

def hmacSha256 := hmac64 sha256

end Shm.Crypto
