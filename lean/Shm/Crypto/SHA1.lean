/- SHA-1 (FIPS 180-4), from the standard. -/
import Shm.Crypto.SHA256
namespace Shm.Crypto

@[inline] def rotl32 (x : UInt32) (n : UInt32) : UInt32 := (x <<< n) ||| (x >>> (32 - n))

def sha1Compress (h : Array UInt32) (blk : List UInt32) : Array UInt32 := Id.run do
  let mut w : Array UInt32 := blk.toArray
  for i in [16:80] do
    w := w.push (rotl32 (w[i - 3]! ^^^ w[i - 8]! ^^^ w[i - 14]! ^^^ w[i - 16]!) 1)
  let mut a := h[0]!; let mut b := h[1]!; let mut c := h[2]!; let mut d := h[3]!; let mut e := h[4]!
  for i in [0:80] do
    let (f, k) : UInt32 × UInt32 :=
      if i < 20 then ((b &&& c) ||| ((~~~ b) &&& d), 0x5A827999)
      else if i < 40 then (b ^^^ c ^^^ d, 0x6ED9EBA1)
      else if i < 60 then ((b &&& c) ||| (b &&& d) ||| (c &&& d), 0x8F1BBCDC)
      else (b ^^^ c ^^^ d, 0xCA62C1D6)
    let t := rotl32 a 5 + f + e + k + w[i]!
    e := d; d := c; c := rotl32 b 30; b := a; a := t
  return #[h[0]! + a, h[1]! + b, h[2]! + c, h[3]! + d, h[4]! + e]

def sha1 (msg : Bytes) : Bytes :=
  let padded := msg ++ mdPad64 msg.length
  let h := (chunks 64 padded).foldl (fun h blk => sha1Compress h (words32 blk)) #[0x67452301, 0xEFCDAB89, 0x98BADCFE, 0x10325476, 0xC3D2E1F0]
  h.toList.flatMap u32Bytes

def hmacSha1 := hmac64 sha1

end Shm.Crypto
