/-
  Block-cipher modes over an abstract block function, and PKCS#7 padding.  Theorems about them are in Shm/Props/C10.lean;
  they hold for every block function with a left inverse, AES (above) is what the driver runs them with.
-/
import Shm.Crypto.AES
namespace Shm.Crypto

/-- PKCS#7: append `n` bytes of value `n`, `1 ≤ n ≤ bs` -/
def pkcs7Pad (bs : Nat) (m : Bytes) : Bytes :=
  let n := bs - m.length % bs
  m ++ List.replicate n (UInt8.ofNat n)

/-- strip PKCS#7 padding; `none` when it is malformed -/
def pkcs7Unpad (bs : Nat) (m : Bytes) : Option Bytes :=
  match m.getLast? with
  | none => none
  | some b =>
    let n := b.toNat
    if n == 0 || n > bs || n > m.length then none
    else if (m.drop (m.length - n)).all (· == b) then some (m.take (m.length - n)) else none

/-- CBC encryption of a list of blocks -/
def cbcEncBlocks (E : Bytes → Bytes) (iv : Bytes) : List Bytes → List Bytes
  | [] => []
  | p :: ps => let c := E (xorBytes p iv); c :: cbcEncBlocks E c ps

def cbcDecBlocks (D : Bytes → Bytes) (iv : Bytes) : List Bytes → List Bytes
  | [] => []
  | c :: cs => xorBytes (D c) iv :: cbcDecBlocks D c cs

def cbcEncrypt (E : Bytes → Bytes) (iv : Bytes) (m : Bytes) : Bytes := (cbcEncBlocks E iv (chunks 16 m)).flatten
def cbcDecrypt (D : Bytes → Bytes) (iv : Bytes) (c : Bytes) : Bytes := (cbcDecBlocks D iv (chunks 16 c)).flatten

def ecbEncrypt (E : Bytes → Bytes) (m : Bytes) : Bytes := ((chunks 16 m).map E).flatten

/-- AES-CBC with PKCS#7 padding, as `SecureDataManager` uses it -/
def aesCbcPadEncrypt (key iv m : Bytes) : Bytes := cbcEncrypt (aesEncBlock (aesKey key)) iv (pkcs7Pad 16 m)

def aesCbcPadDecrypt (key iv c : Bytes) : Option Bytes :=
  if c.isEmpty || c.length % 16 != 0 then none
  else pkcs7Unpad 16 (cbcDecrypt (aesDecBlock (aesKey key)) iv c)

/-- RFC4880.cpp `PBEDeriveKey`: iterated SHA-256 over salt ‖ PIN, `1500 + last salt byte` iterations -/
def pbeDeriveKey (pin salt : Bytes) : Bytes :=
  let iter := 1500 + (salt.getLast?.getD 0).toNat
  (List.range (iter - 1)).foldl (fun h _ => sha256 h) (sha256 (salt ++ pin))

/-- SecureDataManager `pbeDecryptKey`: blob = salt(8) ‖ IV(16) ‖ AES-256-CBC-PKCS7("RJR" ‖ key(32)).  `none`: wrong PIN or damaged blob -/
def openPinBlob (pin blob : Bytes) : Option Bytes :=
  if blob.length != 72 then none else
  let salt := blob.take 8
  let iv := (blob.drop 8).take 16
  match aesCbcPadDecrypt (pbeDeriveKey pin salt) iv (blob.drop 24) with
  | none => none
  | some pt => if pt.length == 35 && pt.take 3 == [0x52, 0x4A, 0x52] then some (pt.drop 3) else none

/-- SecureDataManager `decrypt`: IV(16) ‖ AES-256-CBC-PKCS7(plaintext) under the token key -/
def decryptAttr (mk : Bytes) (stored : Bytes) : Option Bytes :=
  if stored.length < 32 then none else aesCbcPadDecrypt mk (stored.take 16) (stored.drop 16)

end Shm.Crypto
