/-
  MD5 (RFC 1321) as an executable specification (CKM_MD5, CKM_MD5_HMAC of the crypto monitor).
-/
import Shm.Crypto.More
import Shm.Base.Hex
namespace Shm.Crypto
open Shm

def md5S : Array Nat := #[7,12,17,22,7,12,17,22,7,12,17,22,7,12,17,22, 5,9,14,20,5,9,14,20,5,9,14,20,5,9,14,20,
                          4,11,16,23,4,11,16,23,4,11,16,23,4,11,16,23, 6,10,15,21,6,10,15,21,6,10,15,21,6,10,15,21]

def md5K : Array UInt32 := #[
  0xd76aa478, 0xe8c7b756, 0x242070db, 0xc1bdceee, 0xf57c0faf, 0x4787c62a, 0xa8304613, 0xfd469501, 0x698098d8, 0x8b44f7af, 0xffff5bb1, 0x895cd7be, 0x6b901122, 0xfd987193, 0xa679438e, 0x49b40821,
  0xf61e2562, 0xc040b340, 0x265e5a51, 0xe9b6c7aa, 0xd62f105d, 0x02441453, 0xd8a1e681, 0xe7d3fbc8, 0x21e1cde6, 0xc33707d6, 0xf4d50d87, 0x455a14ed, 0xa9e3e905, 0xfcefa3f8, 0x676f02d9, 0x8d2a4c8a,
  0xfffa3942, 0x8771f681, 0x6d9d6122, 0xfde5380c, 0xa4beea44, 0x4bdecfa9, 0xf6bb4b60, 0xbebfbc70, 0x289b7ec6, 0xeaa127fa, 0xd4ef3085, 0x04881d05, 0xd9d4d039, 0xe6db99e5, 0x1fa27cf8, 0xc4ac5665,
  0xf4292244, 0x432aff97, 0xab9423a7, 0xfc93a039, 0x655b59c3, 0x8f0ccc92, 0xffeff47d, 0x85845dd1, 0x6fa87e4f, 0xfe2ce6e0, 0xa3014314, 0x4e0811a1, 0xf7537e82, 0xbd3af235, 0x2ad7d2bb, 0xeb86d391]

def md5rotl (x : UInt32) (n : Nat) : UInt32 := (x <<< UInt32.ofNat n) ||| (x >>> UInt32.ofNat (32 - n))

def le32 (b : Bytes) : UInt32 := UInt32.ofNat (leToNat (b.take 4))
def le32Bytes (x : UInt32) : Bytes := (List.range 4).map fun i => UInt8.ofNat ((x.toNat / 256 ^ i) % 256)

def md5Block (st : UInt32 × UInt32 × UInt32 × UInt32) (blk : Bytes) : UInt32 × UInt32 × UInt32 × UInt32 :=
  let m : Array UInt32 := ((List.range 16).map fun i => le32 (blk.drop (4 * i))).toArray
  let (a0, b0, c0, d0) := st
  let (a, b, c, d) := (List.range 64).foldl (fun (s : UInt32 × UInt32 × UInt32 × UInt32) i =>
    let (a, b, c, d) := s
    let (f, g) :=
      if i < 16 then ((b &&& c) ||| ((~~~ b) &&& d), i)
      else if i < 32 then ((d &&& b) ||| ((~~~ d) &&& c), (5 * i + 1) % 16)
      else if i < 48 then (b ^^^ c ^^^ d, (3 * i + 5) % 16)
      else (c ^^^ (b ||| (~~~ d)), (7 * i) % 16)
    let f2 := f + a + md5K[i]! + m[g]!
    (d, b + md5rotl f2 md5S[i]!, b, c)) (a0, b0, c0, d0)
  (a0 + a, b0 + b, c0 + c, d0 + d)

def md5 (msg : Bytes) : Bytes :=
  let bitLen := msg.length * 8
  let padLen := (119 - msg.length % 64) % 64
  let padded := msg ++ [0x80] ++ List.replicate padLen 0 ++ (List.range 8).map fun i => UInt8.ofNat ((bitLen / 256 ^ i) % 256)
  let (a, b, c, d) := (chunks 64 padded).foldl md5Block (0x67452301, 0xefcdab89, 0x98badcfe, 0x10325476)
  le32Bytes a ++ le32Bytes b ++ le32Bytes c ++ le32Bytes d

end Shm.Crypto
