/-
  DES and triple DES (FIPS 46-3) as an executable specification: the reference the crypto monitor recomputes CKM_DES3_ECB / CBC / CBC_PAD / CMAC with.
  The sixteen Feistel rounds are written over an ARBITRARY round function and key schedule, so that the inversion theorem (Lemmas/DesLemmas.lean, Props/C10) holds
  for every round function; the tables themselves are validated by execution (the FIPS example vector below, and every 3DES operation of the K10 / K20 suites).
-/
import Shm.Crypto.More
namespace Shm.Crypto.DES
open Shm

/-- bit permutation / selection: entry `p` (1-based, counted from the most significant of `width` bits) gives the next output bit -/
def permute (tbl : List Nat) (width : Nat) (x : Nat) : Nat :=
  tbl.foldl (fun out p => out * 2 + (x >>> (width - p)) % 2) 0

def IP : List Nat := [58,50,42,34,26,18,10,2, 60,52,44,36,28,20,12,4, 62,54,46,38,30,22,14,6, 64,56,48,40,32,24,16,8,
                      57,49,41,33,25,17,9,1, 59,51,43,35,27,19,11,3, 61,53,45,37,29,21,13,5, 63,55,47,39,31,23,15,7]
def FP : List Nat := [40,8,48,16,56,24,64,32, 39,7,47,15,55,23,63,31, 38,6,46,14,54,22,62,30, 37,5,45,13,53,21,61,29,
                      36,4,44,12,52,20,60,28, 35,3,43,11,51,19,59,27, 34,2,42,10,50,18,58,26, 33,1,41,9,49,17,57,25]
def E : List Nat := [32,1,2,3,4,5, 4,5,6,7,8,9, 8,9,10,11,12,13, 12,13,14,15,16,17, 16,17,18,19,20,21, 20,21,22,23,24,25, 24,25,26,27,28,29, 28,29,30,31,32,1]
def P : List Nat := [16,7,20,21,29,12,28,17, 1,15,23,26,5,18,31,10, 2,8,24,14,32,27,3,9, 19,13,30,6,22,11,4,25]
def PC1 : List Nat := [57,49,41,33,25,17,9, 1,58,50,42,34,26,18, 10,2,59,51,43,35,27, 19,11,3,60,52,44,36,
                       63,55,47,39,31,23,15, 7,62,54,46,38,30,22, 14,6,61,53,45,37,29, 21,13,5,28,20,12,4]
def PC2 : List Nat := [14,17,11,24,1,5, 3,28,15,6,21,10, 23,19,12,4,26,8, 16,7,27,20,13,2,
                       41,52,31,37,47,55, 30,40,51,45,33,48, 44,49,39,56,34,53, 46,42,50,36,29,32]
def shifts : List Nat := [1,1,2,2,2,2,2,2,1,2,2,2,2,2,2,1]

def SBOX : Array (Array Nat) := #[
  #[14,4,13,1,2,15,11,8,3,10,6,12,5,9,0,7, 0,15,7,4,14,2,13,1,10,6,12,11,9,5,3,8, 4,1,14,8,13,6,2,11,15,12,9,7,3,10,5,0, 15,12,8,2,4,9,1,7,5,11,3,14,10,0,6,13],
  #[15,1,8,14,6,11,3,4,9,7,2,13,12,0,5,10, 3,13,4,7,15,2,8,14,12,0,1,10,6,9,11,5, 0,14,7,11,10,4,13,1,5,8,12,6,9,3,2,15, 13,8,10,1,3,15,4,2,11,6,7,12,0,5,14,9],
  #[10,0,9,14,6,3,15,5,1,13,12,7,11,4,2,8, 13,7,0,9,3,4,6,10,2,8,5,14,12,11,15,1, 13,6,4,9,8,15,3,0,11,1,2,12,5,10,14,7, 1,10,13,0,6,9,8,7,4,15,14,3,11,5,2,12],
  #[7,13,14,3,0,6,9,10,1,2,8,5,11,12,4,15, 13,8,11,5,6,15,0,3,4,7,2,12,1,10,14,9, 10,6,9,0,12,11,7,13,15,1,3,14,5,2,8,4, 3,15,0,6,10,1,13,8,9,4,5,11,12,7,2,14],
  #[2,12,4,1,7,10,11,6,8,5,3,15,13,0,14,9, 14,11,2,12,4,7,13,1,5,0,15,10,3,9,8,6, 4,2,1,11,10,13,7,8,15,9,12,5,6,3,0,14, 11,8,12,7,1,14,2,13,6,15,0,9,10,4,5,3],
  #[12,1,10,15,9,2,6,8,0,13,3,4,14,7,5,11, 10,15,4,2,7,12,9,5,6,1,13,14,0,11,3,8, 9,14,15,5,2,8,12,3,7,0,4,10,1,13,11,6, 4,3,2,12,9,5,15,10,11,14,1,7,6,0,8,13],
  #[4,11,2,14,15,0,8,13,3,12,9,7,5,10,6,1, 13,0,11,7,4,9,1,10,14,3,5,12,2,15,8,6, 1,4,11,13,12,3,7,14,10,15,6,8,0,5,9,2, 6,11,13,8,1,4,10,7,9,5,0,15,14,2,3,12],
  #[13,2,8,4,6,15,11,1,10,9,3,14,5,0,12,7, 1,15,13,8,10,3,7,4,12,5,6,11,0,14,9,2, 7,11,4,1,9,12,14,2,0,6,10,13,15,3,5,8, 2,1,14,7,4,10,8,13,15,12,9,0,3,5,6,11]]

def rot28 (x n : Nat) : Nat := ((x <<< n) ||| (x >>> (28 - n))) % 2 ^ 28

/-- the sixteen 48-bit round keys of a 64-bit key (parity bits ignored) -/
def subkeys (key : Nat) : List Nat :=
  let k56 := permute PC1 64 key
  let step := fun (st : Nat × Nat × List Nat) (s : Nat) =>
    let c := rot28 st.1 s
    let d := rot28 st.2.1 s
    (c, d, st.2.2 ++ [permute PC2 56 (c * 2 ^ 28 + d)])
  (shifts.foldl step (k56 >>> 28, k56 % 2 ^ 28, [])).2.2

/-- the cipher function f(R, K) -/
def fFun (k48 : Nat) (r : UInt32) : UInt32 :=
  let x := (permute E 32 r.toNat) ^^^ k48
  let s := (List.range 8).foldl (fun acc i =>
    let six := (x >>> (42 - 6 * i)) % 64
    let row := (six / 32) * 2 + six % 2
    let col := (six / 2) % 16
    acc * 16 + (SBOX[i]!)[row * 16 + col]!) 0
  UInt32.ofNat (permute P 32 s)

/-- sixteen (or any number of) Feistel rounds over an arbitrary round function: (L, R) ↦ (R, L ⊕ f k R) -/
def rounds {K : Type} (f : K → UInt32 → UInt32) (ks : List K) (lr : UInt32 × UInt32) : UInt32 × UInt32 :=
  ks.foldl (fun (x : UInt32 × UInt32) k => (x.2, x.1 ^^^ f k x.2)) lr

/-- the round structure of one DES direction: rounds, then the halves are exchanged -/
def core {K : Type} (f : K → UInt32 → UInt32) (ks : List K) (lr : UInt32 × UInt32) : UInt32 × UInt32 :=
  let o := rounds f ks lr
  (o.2, o.1)

def crypt64 (ks : List Nat) (x : Nat) : Nat :=
  let ip := permute IP 64 x
  let o := core fFun ks (UInt32.ofNat (ip >>> 32), UInt32.ofNat (ip % 2 ^ 32))
  permute FP 64 (o.1.toNat * 2 ^ 32 + o.2.toNat)

def encBlock (key : Bytes) (b : Bytes) : Bytes := natToBytes (crypt64 (subkeys (bytesToNat key)) (bytesToNat b)) 8
def decBlock (key : Bytes) (b : Bytes) : Bytes := natToBytes (crypt64 (subkeys (bytesToNat key)).reverse (bytesToNat b)) 8

/-- triple DES, EDE; a 16-byte key is K1 K2 K1 -/
def keys3 (k : Bytes) : Bytes × Bytes × Bytes := (k.take 8, (k.drop 8).take 8, if k.length ≥ 24 then (k.drop 16).take 8 else k.take 8)
def enc3 (k : Bytes) (b : Bytes) : Bytes := let (k1, k2, k3) := keys3 k; encBlock k3 (decBlock k2 (encBlock k1 b))
def dec3 (k : Bytes) (b : Bytes) : Bytes := let (k1, k2, k3) := keys3 k; decBlock k1 (encBlock k2 (decBlock k3 b))

/-! ### modes over 8-byte blocks -/

def cbcEnc8 (E : Bytes → Bytes) (iv m : Bytes) : Bytes := (cbcEncBlocks E iv (chunks 8 m)).flatten
def cbcDec8 (D : Bytes → Bytes) (iv c : Bytes) : Bytes := (cbcDecBlocks D iv (chunks 8 c)).flatten
def ecb8 (E : Bytes → Bytes) (m : Bytes) : Bytes := ((chunks 8 m).map E).flatten

def dbl64 (b : Bytes) : Bytes :=
  let v := bytesToNat b
  natToBytes (((v * 2) % 2 ^ 64) ^^^ (if v ≥ 2 ^ 63 then 0x1B else 0)) 8

/-- CMAC (SP 800-38B) for a 64-bit block cipher -/
def cmac8 (E : Bytes → Bytes) (m : Bytes) : Bytes :=
  let k1 := dbl64 (E (List.replicate 8 0))
  let k2 := dbl64 k1
  let n := if m.isEmpty then 1 else (m.length + 7) / 8
  let complete := !m.isEmpty && m.length % 8 == 0
  let head := m.take ((n - 1) * 8)
  let last := m.drop ((n - 1) * 8)
  let lastBlk := if complete then xorBytes last k1 else xorBytes (last ++ [0x80] ++ List.replicate (7 - last.length) 0) k2
  let x := (chunks 8 head).foldl (fun x blk => E (xorBytes x blk)) (List.replicate 8 0)
  E (xorBytes x lastBlk)

end Shm.Crypto.DES
