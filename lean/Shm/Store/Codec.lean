/-
  The on-disk format of an object file (ObjectFile.cpp `refresh` / `writeAttributes`, File.cpp read*/write*), as a total
  decoder and an encoder over byte lists.  The decoder reproduces what the real loader does with EVERY byte string, including
  the malformed ones (it matters for C16/C17): which inputs make the object invalid, which are accepted with fewer attributes.
-/
import Shm.Base.Hex
namespace Shm.Store

abbrev Bytes := List UInt8

/-- values inside an attribute map (CKA_WRAP_TEMPLATE / CKA_UNWRAP_TEMPLATE): File.cpp `AttributeKind` 1, 2, 3, 5 -/
inductive MVal
  | bool (b : Bool)
  | ulong (n : Nat)
  | bytes (v : Bytes)
  | mechs (l : List Nat)
  deriving DecidableEq, Repr, Inhabited

/-- stored attribute values: ObjectFile.cpp BOOLEAN_ATTR 1, ULONG_ATTR 2, BYTESTR_ATTR 3, ATTRMAP_ATTR 4, MECHSET_ATTR 5 -/
inductive FVal
  | bool (b : Bool)
  | ulong (n : Nat)
  | bytes (v : Bytes)
  | amap (l : List (Nat × MVal))
  | mechs (l : List Nat)
  deriving DecidableEq, Repr, Inhabited

abbrev FAttrs := List (Nat × FVal)

/-! ### encoder -/

/-- `File::writeULong`: 8 bytes, big endian (`ByteString(unsigned long)`) -/
def be8 (n : Nat) : Bytes :=
  [UInt8.ofNat (n / 2^56), UInt8.ofNat (n / 2^48), UInt8.ofNat (n / 2^40), UInt8.ofNat (n / 2^32),
   UInt8.ofNat (n / 2^24), UInt8.ofNat (n / 2^16), UInt8.ofNat (n / 2^8), UInt8.ofNat n]

def encBool (b : Bool) : Bytes := [if b then 0xFF else 0]   -- `File::writeBool`
def encBytes (v : Bytes) : Bytes := be8 v.length ++ v
def encMechs (l : List Nat) : Bytes := be8 l.length ++ l.flatMap be8

def MVal.kind : MVal → Nat
  | .bool _ => 1 | .ulong _ => 2 | .bytes _ => 3 | .mechs _ => 5

def MVal.payload : MVal → Bytes
  | .bool b => encBool b
  | .ulong n => be8 n
  | .bytes v => encBytes v
  | .mechs l => encMechs l

def encMEntry (e : Nat × MVal) : Bytes := be8 e.1 ++ be8 e.2.kind ++ e.2.payload

def encMap (l : List (Nat × MVal)) : Bytes :=
  let body := l.flatMap encMEntry
  be8 body.length ++ body

def FVal.kind : FVal → Nat
  | .bool _ => 1 | .ulong _ => 2 | .bytes _ => 3 | .amap _ => 4 | .mechs _ => 5

def FVal.payload : FVal → Bytes
  | .bool b => encBool b
  | .ulong n => be8 n
  | .bytes v => encBytes v
  | .amap l => encMap l
  | .mechs l => encMechs l

def encAttr (e : Nat × FVal) : Bytes := be8 e.1 ++ be8 e.2.kind ++ e.2.payload

/-- `ObjectFile::writeAttributes`: generation number, then the attributes in ascending type order -/
def encodeFile (gen : Nat) (attrs : FAttrs) : Bytes := be8 gen ++ attrs.flatMap encAttr

/-! ### decoder -/

def beVal (bs : Bytes) : Nat := bs.foldl (fun acc b => acc * 256 + b.toNat) 0

/-- `File::readULong`: `none` when fewer than 8 bytes are left (fread short, EOF set) -/
def rdULong (bs : Bytes) : Option (Nat × Bytes) :=
  if bs.length < 8 then none else some (beVal (bs.take 8), bs.drop 8)

def rdBool (bs : Bytes) : Option (Bool × Bytes) :=
  match bs with
  | [] => none
  | b :: r => some (b != 0, r)

def rdBytes (bs : Bytes) : Option (Bytes × Bytes) :=
  match rdULong bs with
  | none => none
  | some (len, r) => if r.length < len then none else some (r.take len, r.drop len)

def insertAscNat (x : Nat) : List Nat → List Nat
  | [] => [x]
  | y :: ys => if x < y then x :: y :: ys else if x == y then y :: ys else y :: insertAscNat x ys

/-- `count` big-endian words into a `std::set` -/
def rdMechWords : Nat → Bytes → List Nat → Option (List Nat × Bytes)
  | 0, bs, acc => some (acc, bs)
  | n + 1, bs, acc =>
    match rdULong bs with
    | none => none
    | some (m, r) => rdMechWords n r (insertAscNat m acc)

def rdMechs (bs : Bytes) : Option (List Nat × Bytes) :=
  match rdULong bs with
  | none => none
  | some (count, r) =>
    -- a count larger than what is left cannot succeed; cut the recursion there (same result: failure)
    if r.length / 8 < count then none else rdMechWords count r []

/-- insert into a `std::map` with `insert` semantics (the FIRST value of a key wins) -/
def mapInsertKeep {α : Type} (k : Nat) (v : α) : List (Nat × α) → List (Nat × α)
  | [] => [(k, v)]
  | (k', v') :: r => if k < k' then (k, v) :: (k', v') :: r else if k == k' then (k', v') :: r else (k', v') :: mapInsertKeep k v r

/-- assign into a `std::map` with `operator[]` semantics (the LAST value of a key wins) -/
def mapSet {α : Type} (k : Nat) (v : α) : List (Nat × α) → List (Nat × α)
  | [] => [(k, v)]
  | (k', v') :: r => if k < k' then (k, v) :: (k', v') :: r else if k == k' then (k, v) :: r else (k', v') :: mapSet k v r

/-- `File::readAttributeMap` after the length word: `len` bytes are announced; every element is read first and charged afterwards -/
def rdMapBody : Nat → Nat → Bytes → List (Nat × MVal) → Option (List (Nat × MVal) × Bytes)
  | 0, _, _, _ => none
  | fuel + 1, len, bs, acc =>
    if len == 0 then some (acc, bs) else
    match rdULong bs with
    | none => none
    | some (ty, r1) =>
      if len < 8 then none else
      match rdULong r1 with
      | none => none
      | some (kind, r2) =>
        if len - 8 < 8 then none else
        let len := len - 16
        if kind == 1 then
          match rdBool r2 with
          | none => none
          | some (b, r3) => if len < 1 then none else rdMapBody fuel (len - 1) r3 (mapInsertKeep ty (.bool b) acc)
        else if kind == 2 then
          match rdULong r2 with
          | none => none
          | some (n, r3) => if len < 8 then none else rdMapBody fuel (len - 8) r3 (mapInsertKeep ty (.ulong n) acc)
        else if kind == 3 then
          match rdBytes r2 with
          | none => none
          | some (v, r3) => if len < 8 + v.length then none else rdMapBody fuel (len - (8 + v.length)) r3 (mapInsertKeep ty (.bytes v) acc)
        else if kind == 5 then
          match rdMechs r2 with
          | none => none
          | some (l, r3) => if len < 8 + l.length * 8 then none else rdMapBody fuel (len - (8 + l.length * 8)) r3 (mapInsertKeep ty (.mechs l) acc)
        else none

def rdMap (bs : Bytes) : Option (List (Nat × MVal) × Bytes) :=
  match rdULong bs with
  | none => none
  | some (len, r) => rdMapBody (r.length + 1) len r []

/-- what `ObjectFile::refresh` concludes from the bytes of a file -/
inductive Load
  | empty                                        -- zero-length file: the attributes in memory are kept, `valid` is left as it was
  | invalid                                      -- "Corrupt object file": `valid = false`
  | valid (gen : Option Nat) (attrs : FAttrs)    -- `gen = none`: fewer than 8 bytes, generation not updated
  deriving DecidableEq, Repr, Inhabited

/-- the attribute loop.  `none` = corrupt.  A file that ends inside (or right before) an attribute-type word ends the loop normally. -/
def rdAttrs : Nat → Bytes → FAttrs → Option FAttrs
  | 0, _, acc => some acc
  | fuel + 1, bs, acc =>
    match rdULong bs with
    | none => some acc                             -- EOF while reading the type: `break`
    | some (ty, r1) =>
      match rdULong r1 with
      | none => none
      | some (kind, r2) =>
        if kind == 1 then
          match rdBool r2 with
          | none => none
          | some (b, r3) => rdAttrs fuel r3 (mapSet ty (.bool b) acc)
        else if kind == 2 then
          match rdULong r2 with
          | none => none
          | some (n, r3) => rdAttrs fuel r3 (mapSet ty (.ulong n) acc)
        else if kind == 3 then
          match rdBytes r2 with
          | none => none
          | some (v, r3) => rdAttrs fuel r3 (mapSet ty (.bytes v) acc)
        else if kind == 5 then
          match rdMechs r2 with
          | none => none
          | some (l, r3) => rdAttrs fuel r3 (mapSet ty (.mechs l) acc)
        else if kind == 4 then
          match rdMap r2 with
          | none => none
          | some (l, r3) => rdAttrs fuel r3 (mapSet ty (.amap l) acc)
        else none

def decodeFile (bs : Bytes) : Load :=
  if bs.isEmpty then .empty else
  match rdULong bs with
  | none => .valid none []                         -- EOF while reading the generation: the loop is not entered
  | some (g, r) =>
    match rdAttrs (r.length + 1) r [] with
    | none => .invalid
    | some attrs => .valid (some g) attrs

end Shm.Store
