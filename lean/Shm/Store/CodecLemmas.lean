import Shm.Store.Codec
namespace Shm.Store

theorem beVal_be8 (n : Nat) (h : n < 2^64) : beVal (be8 n) = n := by
  simp only [beVal, be8, List.foldl, UInt8.toNat_ofNat']
  omega

theorem be8_length (n : Nat) : (be8 n).length = 8 := rfl

theorem rdULong_be8 (n : Nat) (r : Bytes) (h : n < 2^64) : rdULong (be8 n ++ r) = some (n, r) := by
  have h8 : (be8 n ++ r).take 8 = be8 n := by simp [be8]
  have hd : (be8 n ++ r).drop 8 = r := by simp [be8]
  have hl : ¬ (be8 n ++ r).length < 8 := by simp [be8]
  simp only [rdULong, hl, if_false, h8, hd, beVal_be8 n h]

theorem rdBool_enc (b : Bool) (r : Bytes) : rdBool (encBool b ++ r) = some (b, r) := by
  cases b <;> simp [rdBool, encBool]

theorem rdBytes_enc (v r : Bytes) (h : v.length < 2^64) : rdBytes (encBytes v ++ r) = some (v, r) := by
  simp only [rdBytes, encBytes, List.append_assoc, rdULong_be8 _ _ h]
  simp

theorem insertAscNat_last (x : Nat) (acc : List Nat) (h : ∀ y ∈ acc, y < x) : insertAscNat x acc = acc ++ [x] := by
  induction acc with
  | nil => rfl
  | cons y ys ih =>
    have hy : y < x := h y (by simp)
    have h1 : ¬ x < y := by omega
    have h2 : (x == y) = false := by simp; omega
    simp only [insertAscNat, h1, if_false, h2, Bool.false_eq_true, List.cons_append]
    rw [ih (fun z hz => h z (by simp [hz]))]

theorem mapSet_last {α : Type} (k : Nat) (v : α) (acc : List (Nat × α)) (h : ∀ e ∈ acc, e.1 < k) : mapSet k v acc = acc ++ [(k, v)] := by
  induction acc with
  | nil => rfl
  | cons e es ih =>
    obtain ⟨k', v'⟩ := e
    have hy : k' < k := h (k', v') (by simp)
    have h1 : ¬ k < k' := by omega
    have h2 : (k == k') = false := by simp; omega
    simp only [mapSet, h1, if_false, h2, Bool.false_eq_true, List.cons_append]
    rw [ih (fun z hz => h z (by simp [hz]))]

theorem mapInsertKeep_last {α : Type} (k : Nat) (v : α) (acc : List (Nat × α)) (h : ∀ e ∈ acc, e.1 < k) : mapInsertKeep k v acc = acc ++ [(k, v)] := by
  induction acc with
  | nil => rfl
  | cons e es ih =>
    obtain ⟨k', v'⟩ := e
    have hy : k' < k := h (k', v') (by simp)
    have h1 : ¬ k < k' := by omega
    have h2 : (k == k') = false := by simp; omega
    simp only [mapInsertKeep, h1, if_false, h2, Bool.false_eq_true, List.cons_append]
    rw [ih (fun z hz => h z (by simp [hz]))]

/-- strictly ascending, every element below 2^64 -/
def AscNat (l : List Nat) : Prop := l.Pairwise (· < ·) ∧ ∀ x ∈ l, x < 2^64

theorem rdMechWords_enc (l acc : List Nat) (r : Bytes) (h : (acc ++ l).Pairwise (· < ·)) (hb : ∀ x ∈ l, x < 2^64) :
    rdMechWords l.length (l.flatMap be8 ++ r) acc = some (acc ++ l, r) := by
  induction l generalizing acc with
  | nil => simp [rdMechWords]
  | cons x xs ih =>
    have hx : x < 2^64 := hb x (by simp)
    have hlt : ∀ y ∈ acc, y < x := by
      intro y hy
      have := List.pairwise_append.mp h
      exact this.2.2 y hy x (by simp)
    simp only [List.length_cons, rdMechWords, List.flatMap_cons, List.append_assoc, rdULong_be8 _ _ hx, insertAscNat_last x acc hlt]
    rw [ih (acc ++ [x]) (by simpa [List.append_assoc] using h) (fun y hy => hb y (by simp [hy]))]
    simp [List.append_assoc]

theorem flatMap_be8_length (l : List Nat) : (l.flatMap be8).length = 8 * l.length := by
  induction l with
  | nil => rfl
  | cons x xs ih => simp [List.flatMap_cons, be8_length, ih]; omega

theorem rdMechs_enc (l : List Nat) (r : Bytes) (h : AscNat l) (hl : l.length < 2^64) : rdMechs (encMechs l ++ r) = some (l, r) := by
  simp only [rdMechs, encMechs, List.append_assoc, rdULong_be8 _ _ hl]
  have : ¬ (l.flatMap be8 ++ r).length / 8 < l.length := by
    simp only [List.length_append, flatMap_be8_length]; omega
  simp only [this, if_false]
  have := rdMechWords_enc l [] r (by simpa using h.1) h.2
  simpa using this

/-! ### well-formed values: what the encoder can represent -/

def MVal.WF : MVal → Prop
  | .bool _ => True
  | .ulong n => n < 2^64
  | .bytes v => v.length < 2^64
  | .mechs l => AscNat l ∧ l.length < 2^64

def MapWF (l : List (Nat × MVal)) : Prop :=
  (l.map Prod.fst).Pairwise (· < ·) ∧ (∀ e ∈ l, e.1 < 2^64 ∧ e.2.WF) ∧ (l.flatMap encMEntry).length < 2^64

def FVal.WF : FVal → Prop
  | .bool _ => True
  | .ulong n => n < 2^64
  | .bytes v => v.length < 2^64
  | .amap l => MapWF l
  | .mechs l => AscNat l ∧ l.length < 2^64

/-- what `writeAttributes` can be handed: ascending distinct attribute types (a `std::map`), every number in 64 bits -/
def AttrsWF (l : FAttrs) : Prop :=
  (l.map Prod.fst).Pairwise (· < ·) ∧ ∀ e ∈ l, e.1 < 2^64 ∧ e.2.WF

theorem MVal.payload_len (v : MVal) : v.payload.length =
    match v with | .bool _ => 1 | .ulong _ => 8 | .bytes b => 8 + b.length | .mechs l => 8 + l.length * 8 := by
  cases v with
  | bool b => simp [MVal.payload, encBool]
  | ulong n => simp [MVal.payload, be8_length]
  | bytes b => simp only [MVal.payload, encBytes, List.length_append, be8_length]
  | mechs l => simp only [MVal.payload, encMechs, List.length_append, be8_length, flatMap_be8_length]; omega

theorem encMEntry_length (e : Nat × MVal) : (encMEntry e).length = 16 + e.2.payload.length := by
  simp [encMEntry, be8_length]; omega

theorem rdMapBody_enc (l acc : List (Nat × MVal)) (r : Bytes) (fuel : Nat) (hf : l.length < fuel)
    (h : ((acc ++ l).map Prod.fst).Pairwise (· < ·)) (hb : ∀ e ∈ l, e.1 < 2^64 ∧ e.2.WF) :
    rdMapBody fuel (l.flatMap encMEntry).length (l.flatMap encMEntry ++ r) acc = some (acc ++ l, r) := by
  induction l generalizing acc fuel with
  | nil =>
    cases fuel with
    | zero => simp at hf
    | succ f => simp [rdMapBody]
  | cons e es ih =>
    cases fuel with
    | zero => simp at hf
    | succ f =>
      obtain ⟨k, v⟩ := e
      have hk : k < 2^64 := (hb (k, v) (by simp)).1
      have hv : v.WF := (hb (k, v) (by simp)).2
      have hlt : ∀ y ∈ acc, y.1 < k := by
        intro y hy
        have := List.pairwise_append.mp (by simpa [List.map_append] using h)
        exact this.2.2 y.1 (List.mem_map_of_mem hy) k (by simp)
      have hrest := ih (acc ++ [(k, v)]) f (by simp at hf; omega) (by simpa [List.append_assoc] using h)
        (fun y hy => hb y (by simp [hy]))
      have hlen : ((k, v) :: es).flatMap encMEntry = encMEntry (k, v) ++ es.flatMap encMEntry := by simp [List.flatMap_cons]
      have hkind : v.kind < 2^64 := by cases v <;> simp [MVal.kind]
      rw [hlen]
      simp only [List.length_append, encMEntry_length]
      unfold rdMapBody
      have hne : (16 + v.payload.length + (es.flatMap encMEntry).length == 0) = false := by simp
      simp only [hne, Bool.false_eq_true, if_false]
      simp only [encMEntry, List.append_assoc, rdULong_be8 _ _ hk, rdULong_be8 _ _ hkind]
      have h8 : ¬ (16 + v.payload.length + (es.flatMap encMEntry).length < 8) := by omega
      have h16 : ¬ (16 + v.payload.length + (es.flatMap encMEntry).length - 8 < 8) := by omega
      simp only [h8, h16, if_false]
      cases v with
      | bool b =>
        simp only [MVal.kind, MVal.payload, rdBool_enc, mapInsertKeep_last k _ acc hlt]
        simp only [encBool, List.length_cons, List.length_nil]
        have : 16 + (0 + 1) + (es.flatMap encMEntry).length - 16 - 1 = (es.flatMap encMEntry).length := by omega
        have h1 : ¬ (16 + (0 + 1) + (es.flatMap encMEntry).length - 16 < 1) := by omega
        simp only [this, h1, if_false]
        simpa [List.append_assoc] using hrest
      | ulong n =>
        have hn : n < 2^64 := hv
        simp only [MVal.kind, MVal.payload, rdULong_be8 _ _ hn, mapInsertKeep_last k _ acc hlt, be8_length]
        have : 16 + 8 + (es.flatMap encMEntry).length - 16 - 8 = (es.flatMap encMEntry).length := by omega
        have h1 : ¬ (16 + 8 + (es.flatMap encMEntry).length - 16 < 8) := by omega
        simp only [this, h1, if_false]
        simpa [List.append_assoc] using hrest
      | bytes b =>
        have hn : b.length < 2^64 := hv
        simp only [MVal.kind, MVal.payload, rdBytes_enc _ _ hn, mapInsertKeep_last k _ acc hlt]
        have hl : (encBytes b).length = 8 + b.length := by simp only [encBytes, List.length_append, be8_length]
        simp only [hl]
        have : 16 + (8 + b.length) + (es.flatMap encMEntry).length - 16 - (8 + b.length) = (es.flatMap encMEntry).length := by omega
        have h1 : ¬ (16 + (8 + b.length) + (es.flatMap encMEntry).length - 16 < 8 + b.length) := by omega
        simp only [this, h1, if_false]
        simpa [List.append_assoc] using hrest
      | mechs l =>
        have hn : AscNat l ∧ l.length < 2^64 := hv
        simp only [MVal.kind, MVal.payload, rdMechs_enc _ _ hn.1 hn.2, mapInsertKeep_last k _ acc hlt]
        have hl : (encMechs l).length = 8 + l.length * 8 := by simp only [encMechs, List.length_append, be8_length, flatMap_be8_length]; omega
        simp only [hl]
        have : 16 + (8 + l.length * 8) + (es.flatMap encMEntry).length - 16 - (8 + l.length * 8) = (es.flatMap encMEntry).length := by omega
        have h1 : ¬ (16 + (8 + l.length * 8) + (es.flatMap encMEntry).length - 16 < 8 + l.length * 8) := by omega
        simp only [this, h1, if_false]
        simpa [List.append_assoc] using hrest

theorem flatMap_encMEntry_length_ge (l : List (Nat × MVal)) : l.length ≤ (l.flatMap encMEntry).length := by
  induction l with
  | nil => simp
  | cons e es ih => simp only [List.flatMap_cons, List.length_append, List.length_cons, encMEntry_length]; omega

theorem rdMap_enc (l : List (Nat × MVal)) (r : Bytes) (h : MapWF l) : rdMap (encMap l ++ r) = some (l, r) := by
  simp only [rdMap, encMap, List.append_assoc, rdULong_be8 _ _ h.2.2]
  have := rdMapBody_enc l [] r ((l.flatMap encMEntry ++ r).length + 1)
    (by have := flatMap_encMEntry_length_ge l; simp only [List.length_append]; omega) (by simpa using h.1) h.2.1
  simpa using this

theorem encAttr_length_pos (e : Nat × FVal) : 16 ≤ (encAttr e).length := by
  simp [encAttr, be8_length]; omega

theorem rdAttrs_enc (l acc : FAttrs) (fuel : Nat) (hf : l.length < fuel)
    (h : ((acc ++ l).map Prod.fst).Pairwise (· < ·)) (hb : ∀ e ∈ l, e.1 < 2^64 ∧ e.2.WF) :
    rdAttrs fuel (l.flatMap encAttr) acc = some (acc ++ l) := by
  induction l generalizing acc fuel with
  | nil =>
    cases fuel with
    | zero => simp at hf
    | succ f => simp [rdAttrs, rdULong]
  | cons e es ih =>
    cases fuel with
    | zero => simp at hf
    | succ f =>
      obtain ⟨k, v⟩ := e
      have hk : k < 2^64 := (hb (k, v) (by simp)).1
      have hv : v.WF := (hb (k, v) (by simp)).2
      have hlt : ∀ y ∈ acc, y.1 < k := by
        intro y hy
        have := List.pairwise_append.mp (by simpa [List.map_append] using h)
        exact this.2.2 y.1 (List.mem_map_of_mem hy) k (by simp)
      have hrest := ih (acc ++ [(k, v)]) f (by simp at hf; omega) (by simpa [List.append_assoc] using h)
        (fun y hy => hb y (by simp [hy]))
      have hkind : v.kind < 2^64 := by cases v <;> simp [FVal.kind]
      unfold rdAttrs
      simp only [List.flatMap_cons, encAttr, List.append_assoc, rdULong_be8 _ _ hk, rdULong_be8 _ _ hkind]
      cases v with
      | bool b =>
        simp only [FVal.kind, FVal.payload, rdBool_enc, mapSet_last k _ acc hlt]
        simpa [List.append_assoc, encAttr] using hrest
      | ulong n =>
        have hn : n < 2^64 := hv
        simp only [FVal.kind, FVal.payload, rdULong_be8 _ _ hn, mapSet_last k _ acc hlt]
        simpa [List.append_assoc, encAttr] using hrest
      | bytes b =>
        have hn : b.length < 2^64 := hv
        simp only [FVal.kind, FVal.payload, rdBytes_enc _ _ hn, mapSet_last k _ acc hlt]
        simpa [List.append_assoc, encAttr] using hrest
      | mechs l =>
        have hn : AscNat l ∧ l.length < 2^64 := hv
        simp only [FVal.kind, FVal.payload, rdMechs_enc _ _ hn.1 hn.2, mapSet_last k _ acc hlt]
        simpa [List.append_assoc, encAttr] using hrest
      | amap l =>
        have hn : MapWF l := hv
        simp only [FVal.kind, FVal.payload, rdMap_enc _ _ hn, mapSet_last k _ acc hlt]
        simpa [List.append_assoc, encAttr] using hrest

theorem flatMap_encAttr_length_ge (l : FAttrs) : l.length ≤ (l.flatMap encAttr).length := by
  induction l with
  | nil => simp
  | cons e es ih =>
    have := encAttr_length_pos e
    simp only [List.flatMap_cons, List.length_append, List.length_cons]; omega

end Shm.Store
