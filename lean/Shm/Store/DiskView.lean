/-
  The token directory as the model expects it (the write-through abstraction of OSToken/ObjectFile) and the check of an
  observed directory dump against a model state.  This is the INDEPENDENT DECODER of C05/C06/C04: it parses the object
  files with the Lean codec, opens the PIN blobs with its own PBE + AES, decrypts the byte strings of private objects and
  compares everything with the model's token objects.
-/
import Shm.Store.Codec
import Shm.Crypto.Modes
import Shm.Model.Step
namespace Shm.Store
open Shm Shm.Crypto

/-- vendor attributes of `token.object` (OSAttributes.h) -/
def CKA_OS_TOKENLABEL : Nat := 0x80005349
def CKA_OS_TOKENSERIAL : Nat := 0x8000534A
def CKA_OS_TOKENFLAGS : Nat := 0x8000534B
def CKA_OS_SOPIN : Nat := 0x8000534C
def CKA_OS_USERPIN : Nat := 0x8000534D

structure DEntry where
  isDir : Bool
  path : String
  mode : Nat
  content : Bytes
  deriving Repr, Inhabited

def parseOctal (s : String) : Option Nat :=
  s.toList.foldlM (fun acc c => if '0' ≤ c && c ≤ '7' then some (acc * 8 + (c.toNat - '0'.toNat)) else none) 0

def parseDEntry (w : String) : Option DEntry :=
  match w.splitOn ":" with
  | ["D", p, m] => do pure { isDir := true, path := p, mode := ← parseOctal m, content := [] }
  | ["F", p, m, c] => do
      let b ← if c == "." then some [] else parseHex c
      pure { isDir := false, path := p, mode := ← parseOctal m, content := b }
  | _ => none

/-- C17: what `ObjectFile::ObjectFile` + `refresh(true)` conclude about a file seen for the first time: usable iff the attribute loop ends normally with at least one attribute -/
def loadsValid (bs : Bytes) : Bool :=
  match decodeFile bs with
  | .valid _ (_ :: _) => true
  | _ => false

/-- the object files of a dumped token directory: `<token dir>/<name>.object`, not `token.object` -/
def objectFiles (ents : List DEntry) : List DEntry :=
  ents.filter (fun e => !e.isDir && e.path.endsWith ".object" && !e.path.endsWith "token.object")

def countLoadable (ents : List DEntry) : Nat := ((objectFiles ents).filter (fun e => loadsValid e.content)).length

def mvalOf (e : Nat × Nat × Bytes) : Nat × MVal :=
  let (ty, kind, raw) := e
  (ty, if kind == 1 then .bool (raw.headD 0 != 0) else if kind == 2 then .ulong (leToNat raw) else .bytes raw)

/-- the model's attribute value as the file stores it; `none` for a value the model does not compute -/
def fvalOf : AVal → Option FVal
  | .bool b => some (.bool b)
  | .ulong n => some (.ulong n)
  | .bytes v _ => some (.bytes v)
  | .mechs l => some (.mechs l)
  | .amap l => some (.amap (l.map mvalOf))
  | .unk => none

def insertByKey {α : Type} (e : Nat × α) : List (Nat × α) → List (Nat × α)
  | [] => [e]
  | x :: xs => if e.1 < x.1 then e :: x :: xs else x :: insertByKey e xs

def sortByKey {α : Type} (l : List (Nat × α)) : List (Nat × α) := l.foldr insertByKey []

/-- decrypt the byte strings of a private object's file image; `none` if one of them does not decrypt -/
def plainView (mk : Option Bytes) (isPriv : Bool) (attrs : FAttrs) : Option FAttrs :=
  attrs.mapM fun (ty, v) =>
    match v with
    | .bytes b =>
      if isPriv && !b.isEmpty then
        match mk with
        | none => none
        | some k => (decryptAttr k b).map fun p => (ty, FVal.bytes p)
      else some (ty, v)
    | _ => some (ty, v)

def fBool (attrs : FAttrs) (ty : Nat) (dflt : Bool) : Bool :=
  match attrs.lookup ty with
  | some (.bool b) => b
  | _ => dflt

/-- does the decoded, decrypted file image agree with the model object?  (values the model leaves open only have to exist) -/
def objAgrees (o : Obj) (file : FAttrs) : Bool :=
  let want := sortByKey (o.attrs.filter fun a => a.1 < 0xFFFF0000)     -- model-internal bookkeeping entries are not attributes
  want.length == file.length &&
  (want.zip file).all fun (w, f) =>
    w.1 == f.1 && (match fvalOf w.2 with
                   | none => true
                   | some v => v == f.2)

def removeFirst {α : Type} (p : α → Bool) : List α → Option (List α)
  | [] => none
  | x :: xs => if p x then some xs else (removeFirst p xs).map (x :: ·)

def showAttrs (a : FAttrs) : String :=
  " ".intercalate (a.map fun (ty, v) =>
    s!"{String.ofList (Nat.toDigits 16 ty)}=" ++ (match v with
      | .bool b => if b then "T" else "F"
      | .ulong n => s!"u{n}"
      | .bytes b => toHex b
      | .mechs l => s!"m{l}"
      | .amap l => s!"map[{l.length}]"))

/-- does `needle` occur in the byte string? -/
def hasInfix (needle : Bytes) : Bytes → Bool
  | [] => needle.isEmpty
  | b :: t => needle.isPrefixOf (b :: t) || hasInfix needle t

structure DiskCfg where
  umask : Nat := 0o077        -- objectstore.umask (DEFAULT_UMASK)

/-- every discrepancy between a directory dump and the model state (empty list = the directory is exactly what the model expects) -/
def checkDisk (s : State) (cfg : DiskCfg) (ents : List DEntry) : List String := Id.run do
  let mut errs : List String := []
  -- permissions
  for e in ents do
    -- C06: no permission bit outside the configured umask; files are never executable
    if e.mode &&& cfg.umask != 0 then
      errs := errs ++ [s!"mode of {e.path} is {String.ofList (Nat.toDigits 8 e.mode)}: bits inside objectstore.umask {String.ofList (Nat.toDigits 8 cfg.umask)}"]
    if !e.isDir && e.mode &&& 0o111 != 0 then errs := errs ++ [s!"file {e.path} is executable ({String.ofList (Nat.toDigits 8 e.mode)})"]
  let dirs := ents.filter (·.isDir)
  let modelToks := s.slots.filterMap fun sl => sl.tok.map fun t => (sl.id, t)
  let mut seenSerials : List Bytes := []
  for d in dirs do
    let files := ents.filter fun e => !e.isDir && e.path.startsWith (d.path ++ "/")
    match files.find? (·.path == d.path ++ "/token.object") with
    | none => errs := errs ++ [s!"{d.path}: no token.object"]
    | some tf =>
      match decodeFile tf.content with
      | .valid (some _) ta =>
        let serial := match ta.lookup CKA_OS_TOKENSERIAL with | some (.bytes b) => b | _ => []
        let label := match ta.lookup CKA_OS_TOKENLABEL with | some (.bytes b) => b | _ => []
        match modelToks.find? (·.2.serial == serial) with
        | none => errs := errs ++ [s!"{d.path}: token with serial {toHex serial} is not in the model"]
        | some (slotId, t) =>
          seenSerials := serial :: seenSerials
          if label != t.label then errs := errs ++ [s!"{d.path}: label {toHex label}, model {toHex t.label}"]
          -- PIN blobs: exactly the current PINs open them, both give the same token key
          let soBlob := match ta.lookup CKA_OS_SOPIN with | some (.bytes b) => b | _ => []
          let userBlob := match ta.lookup CKA_OS_USERPIN with | some (.bytes b) => some b | _ => none
          let mkSo := openPinBlob t.soPin soBlob
          if mkSo.isNone then errs := errs ++ [s!"{d.path}: the SO PIN of the model does not open the stored SO blob"]
          let mut mk := mkSo
          match t.userPin, userBlob with
          | none, none => pure ()
          | none, some b => if !b.isEmpty then errs := errs ++ [s!"{d.path}: a user PIN blob is stored but the model has no user PIN"]
          | some _, none => errs := errs ++ [s!"{d.path}: no user PIN blob is stored"]
          | some p, some b =>
            let mkU := openPinBlob p b
            if mkU.isNone then errs := errs ++ [s!"{d.path}: the user PIN of the model does not open the stored user blob"]
            else if mkSo.isSome && mkU != mkSo then errs := errs ++ [s!"{d.path}: SO blob and user blob hold different token keys"]
            if mk.isNone then mk := mkU
          -- the master key must not be in the directory in the clear (only inside the blobs)
          match mk with
          | some k =>
            for f in files do
              if hasInfix k f.content then
                errs := errs ++ [s!"{f.path}: contains the token key in the clear"]
          | none => pure ()
          -- object files
          let mut want := s.objs.filter fun o => o.onToken && o.slot == slotId
          for f in files do
            if f.path.endsWith ".lock" then
              if !f.content.isEmpty then errs := errs ++ [s!"{f.path}: lock file is not empty"]
            else if f.path == d.path ++ "/token.object" || f.path == d.path ++ "/generation" then pure ()
            else if f.path.endsWith ".object" then
              match decodeFile f.content with
              | .valid (some g) fa =>
                -- the Lean ENCODER reproduces the file byte for byte from what the decoder read (canonical form: no trailing garbage)
                if encodeFile g fa != f.content then errs := errs ++ [s!"{f.path}: the file is not the canonical encoding of its content"]
                let isPriv := fBool fa 2 true
                match plainView mk isPriv fa with
                | none => errs := errs ++ [s!"{f.path}: a byte string of a private object does not decrypt under the token key"]
                | some pv =>
                  -- C06: stored byte strings of a private object differ from their plaintext (they are IV ‖ ciphertext)
                  if isPriv then
                    for (a, b) in fa.zip pv do
                      match a.2, b.2 with
                      | .bytes x, .bytes y => if !x.isEmpty && (x == y || x.length != 16 + (y.length / 16 + 1) * 16) then
                          errs := errs ++ [s!"{f.path}: attribute {String.ofList (Nat.toDigits 16 a.1)} of a private object is not stored as IV+ciphertext"]
                      | _, _ => pure ()
                  match removeFirst (fun o => objAgrees o pv) want with
                  | some rest => want := rest
                  | none => errs := errs ++ [s!"{f.path}: no token object of the model has these attributes: {showAttrs pv}"]
              | other => errs := errs ++ [s!"{f.path}: object file does not load ({repr other |>.pretty 60})"]
            else errs := errs ++ [s!"{f.path}: unexpected file"]
          for o in want do
            errs := errs ++ [s!"{d.path}: token object oid={o.oid} label={toHex o.label} of the model has no file"]
      | other => errs := errs ++ [s!"{d.path}/token.object does not load ({repr other |>.pretty 60})"]
  for (_, t) in modelToks do
    if !seenSerials.contains t.serial then errs := errs ++ [s!"token {toHex t.serial} of the model has no directory"]
  for e in ents do
    if !e.isDir && !(e.path.contains '/') then errs := errs ++ [s!"{e.path}: unexpected file at the top of the token directory"]
  return errs

end Shm.Store
