#!/usr/bin/env python3
"""Regenerates MANIFEST.json from the property modules under vlib/props (run after adding a property)."""
import json, os, sys, importlib
V = os.path.dirname(os.path.dirname(os.path.abspath(__file__)))
sys.path.insert(0, V)
props = {json.loads(l)["id"]: json.loads(l) for l in open(os.path.join(V, "properties.jsonl"))}
checks, na = [], []
for pid in sorted(props):
    try:
        m = importlib.import_module("vlib.props." + pid)
    except ImportError:
        na.append({"property_id": pid, "reason": "no check registered yet for this property in this revision of /verif (see DESIGN.md section 4 for the plan); not claimed"})
        continue
    if getattr(m, "NOT_APPLICABLE", None):
        na.append({"property_id": pid, "reason": m.NOT_APPLICABLE}); continue
    checks.append({
        "property_id": pid,
        "quick_cmd": f"./check {pid} --tier quick",
        "thorough_cmd": f"./check {pid} --tier thorough",
        "evidence_file": f"/verif/evidence/{pid}.json",
        "replay_cmd_template": f"./check {pid} --replay {{path}}",
        "engine": "lean-shm",
        "level_claimed": {"category": m.LEVEL, "text": m.LEVEL_TEXT, "design_ref": getattr(m, "DESIGN_REF", "DESIGN.md section 4 (" + pid + ")")},
        "level_note": m.LEVEL_NOTE,
        "technique": m.TECHNIQUE,
    })
man = {
    "version": 1,
    "setup_cmd": "./check --setup",
    "hooks": {"guard": "SOFTHSM_VERIF", "enable": "no source hooks are used: the checks build /repo's working tree unmodified (cmake+ninja into /verif/.build) and link the harness against libsofthsm2-static.a",
              "baseline_off_cmd": "ctest --test-dir /repo/_build -j8 --timeout 900", "source_commits": [], "add_only": True},
    "engines": [{"name": "lean-shm", "path": "/verif/lean", "serves_properties": [c["property_id"] for c in checks],
                 "kind_free_text": "Lean 4 model `Shm` (lake project, core Lean only) + property theorems in lean/Shm/Props; tables in lean/Shm/Gen regenerated from /repo on every run (tools/tabledump.cpp); compiled model driver `shm-driver` run as a monitor next to the real library through harness/p11drv.cpp (line protocol)"}],
    "checks": checks,
    "not_applicable": na,
    "notes": "Every check rebuilds libsofthsm2-static.a from /repo's working tree (incremental), regenerates the generated tables, rebuilds the Lean library (all property theorems re-checked, #print axioms audit, grep for sorry/axiom/native_decide), then runs the correspondence suites. See DESIGN.md.",
}
json.dump(man, open(os.path.join(V, "MANIFEST.json"), "w"), indent=1)
print("checks:", [c["property_id"] for c in checks], "not_applicable:", len(na))
