#!/bin/sh
# run before committing /verif: every registered check at the quick tier against the UNCHANGED /repo, so that the committed evidence
# files come from the repository itself (never from a run against a seeded mutant)
set -e
cd "$(dirname "$0")/.."
if git -C /repo status --short | grep -v '^?? _build' | grep -q .; then echo "precommit: /repo has local changes"; exit 1; fi
./check --all
for f in evidence/*.json; do
  python3 - "$f" <<'PY'
import json, sys
e = json.load(open(sys.argv[1])); c = e["coverage"]
assert c["obligations"] == c["discharged"] and not e.get("violations"), sys.argv[1]
PY
done
python3 tools/mk_manifest.py
# schema validation of the manifest and of every evidence file (the tooling venv has jsonschema; skipped when it is absent)
if command -v python3-vt >/dev/null 2>&1; then python3-vt - <<'PY'
import json, glob, jsonschema
jsonschema.validate(json.load(open("MANIFEST.json")), json.load(open("/root/.vp/MANIFEST.schema.json")))
sch = json.load(open("/root/.vp/EVIDENCE.schema.json"))
for f in sorted(glob.glob("evidence/*.json")): jsonschema.validate(json.load(open(f)), sch)
print("precommit: schemas ok")
PY
fi
echo "precommit: ok"
