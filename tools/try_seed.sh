#!/bin/bash
# tools/try_seed.sh <worktree with DELIVER/ and the patch applied> <seed id, e.g. C12-b> <property ids to check...>
# 1. confirms in the scratch worktree: demo exits 0 without the patch, non-zero with it, ctest passes with it
# 2. copies the delivery to /verif/seeded/<id>/
# 3. applies the patch to /repo, runs the quick check of each listed property, undoes the patch
set -u
WT=$1; ID=$2; shift 2
D=$WT/DELIVER
LOG=/verif/.run/seed-$ID.log; mkdir -p /verif/.run; : > $LOG
git -C /repo diff --quiet -- src || { echo "/repo has local changes"; exit 2; }
git -C /repo apply --check $D/patch.diff || { echo "patch does not apply to /repo"; exit 2; }
cd $WT
git stash -q -- src >>$LOG 2>&1; ninja -C _build >>$LOG 2>&1
bash $D/run_demo.sh $WT >>$LOG 2>&1; clean=$?
git stash pop -q >>$LOG 2>&1; ninja -C _build >>$LOG 2>&1
bash $D/run_demo.sh $WT >>$LOG 2>&1; mut=$?
OPENSSL_CONF=/tmp/wt/openssl-legacy.cnf ctest --test-dir _build -j8 --timeout 900 >>$LOG 2>&1; ct=$?
echo "[$ID] demo clean=$clean mutated=$mut ctest=$ct"
if [ $clean -ne 0 ] || [ $mut -eq 0 ] || [ $ct -ne 0 ]; then echo "[$ID] NOT CONFIRMED"; exit 3; fi
mkdir -p /verif/seeded/$ID; cp $D/patch.diff $D/meta.json /verif/seeded/$ID/; cp $D/demo* $D/run_demo.sh /verif/seeded/$ID/ 2>/dev/null
cd /verif
git -C /repo apply $D/patch.diff
for P in "$@"; do
  out=$(./check $P --tier quick 2>/verif/.run/seed-$ID-$P.err); rc=$?
  echo "[$ID] check $P rc=$rc :: $(echo "$out" | grep -c '^VIOLATION') violation lines"; echo "$out" | grep '^VIOLATION' | head -5
done
git -C /repo checkout -- .
git -C /verif checkout -- evidence lean/Shm/Gen 2>/dev/null
