#!/usr/bin/env python3
"""T-obligation from the SOURCE TEXT for C18: how each method of the shared-table classes takes its mutex.

usage: extract_locks.py <repo> <out dir of lean/Shm/Gen>

For every method of HandleManager, SessionManager, SessionObjectStore and Token: `first` - the first statement of the body is `MutexLocker lock(<mutex>)` (the whole method runs under
the lock); `later` - a MutexLocker at the top nesting level but after other statements (a check-then-act window in front of it); `scoped` - only inside a nested block (the lock is dropped
before the method ends); `none`.  Props/FactsC18.lean states which methods must be `first`."""
import re, sys, os
sys.path.insert(0, os.path.dirname(os.path.abspath(__file__)))
from extract_facts import strip

FILES = [("HandleManager", "src/lib/handle_mgr/HandleManager.cpp"), ("SessionManager", "src/lib/session_mgr/SessionManager.cpp"),
         ("SessionObjectStore", "src/lib/object_store/SessionObjectStore.cpp"), ("Token", "src/lib/slot_mgr/Token.cpp")]


def methods(src, cls):
    res = []
    for m in re.finditer(r"^[A-Za-z_][\w\s\*&:<>,]*?\b%s::(~?\w+)\s*\([^;{]*\)\s*(?:const\s*)?(?::[^{;]*)?\{" % cls, src, re.M):
        name = m.group(1)
        i = m.end() - 1
        depth, j = 0, i
        while j < len(src):
            if src[j] == "{": depth += 1
            elif src[j] == "}":
                depth -= 1
                if depth == 0: break
            j += 1
        res.append((name, src[i + 1:j]))
    return res


def classify(body):
    # statements at nesting depth 0 of the body
    depth, pos, first_stmt, kind, mutex = 0, 0, None, "none", ""
    top = []          # (text of top-level region) pieces
    cur = []
    for ch in body:
        if ch == "{":
            depth += 1
        if depth == 0: cur.append(ch)
        if ch == "}":
            depth -= 1
    toptext = "".join(cur)
    stmts = [s.strip() for s in toptext.split(";") if s.strip()]
    allm = re.findall(r"MutexLocker\s+\w+\s*\(\s*([\w\->\.]+)\s*\)", body)
    topm = re.findall(r"MutexLocker\s+\w+\s*\(\s*([\w\->\.]+)\s*\)", toptext)
    if topm:
        mutex = topm[0]
        # plain local declarations (no call, no test) in front of the locker do not open a window
        lead = [x for x in stmts if not re.match(r"^[\w:\*&<>\s]+\s+\**\w+(\s*=\s*[\w:\.\->]+)?$", x)]
        kind = "first" if lead and re.match(r"MutexLocker\s+\w+\s*\(", lead[0]) else "later"
    elif allm:
        mutex = allm[0]; kind = "scoped"
    return kind, mutex


def methods_any(src):
    """[(class, name, body)] of every out-of-line member function of a file"""
    res = []
    for m in re.finditer(r"^[A-Za-z_][\w\s\*&:<>,]*?\b(\w+)::(~?\w+)\s*\([^;{]*\)\s*(?:const\s*)?(?::[^{;]*)?\{", src, re.M):
        i = m.end() - 1
        depth, j = 0, i
        while j < len(src):
            if src[j] == "{": depth += 1
            elif src[j] == "}":
                depth -= 1
                if depth == 0: break
            j += 1
        res.append((m.group(1), m.group(2), src[i + 1:j]))
    return res


def held_regions(body):
    """[(mutex, text that runs under the lock)]: from a MutexLocker declaration to the end of the block it is declared in"""
    out = []
    for m in re.finditer(r"MutexLocker\s+\w+\s*\(\s*([\w\->\.]+)\s*\)\s*;", body):
        depth, j = 0, m.end()
        while j < len(body):
            if body[j] == "{": depth += 1
            elif body[j] == "}":
                if depth == 0: break
                depth -= 1
            j += 1
        out.append((m.group(1), body[m.end():j]))
    return out


def relocks(repo):
    """(caller, callee, mutex): `caller` calls `callee` (same class, unqualified or through `this`) inside a region it holds `mutex` in, and `callee` takes `mutex` somewhere
    in its body.  The library's mutexes are not recursive: such a call is a self-deadlock unless the callee's locker sits in a branch that call does not take."""
    import glob
    rows, nreg = [], 0
    for path in sorted(glob.glob(os.path.join(repo, "src", "lib", "**", "*.cpp"), recursive=True)):
        if "/test/" in path: continue
        src = strip(open(path, encoding="latin1").read())
        if "MutexLocker" not in src: continue
        ms = methods_any(src)
        takes = {}
        for c, n, b in ms:
            for mu, _ in held_regions(b): takes.setdefault((c, n), set()).add(mu)
        for c, n, b in ms:
            for mu, region in held_regions(b):
                nreg += 1
                for g in set(re.findall(r"(?<![\w>\.:])(?:this\s*->\s*)?(\w+)\s*\(", region)):
                    if mu in takes.get((c, g), ()): rows.append(("%s::%s" % (c, n), "%s::%s" % (c, g), mu))
    return sorted(set(rows)), nreg


def main():
    repo, outdir = sys.argv[1], sys.argv[2]
    rows = []
    for cls, path in FILES:
        src = strip(open(os.path.join(repo, path), encoding="latin1").read())
        seen = {}
        for name, body in methods(src, cls):
            kind, mutex = classify(body)
            key = "%s::%s" % (cls, name)
            if key in seen:        # overloads: the weakest discipline counts
                order = ["none", "scoped", "later", "first"]
                if order.index(kind) < order.index(seen[key][0]): seen[key] = (kind, mutex)
            else: seen[key] = (kind, mutex)
        rows += [(k, v[0], v[1]) for k, v in seen.items()]
    L = ["/- GENERATED by tools/extract_locks.py from the source text on every run - do not edit.",
         "   (method, how it takes its mutex: first / later / scoped / none, which mutex) -/", "namespace Shm.Gen", "",
         "def lockFacts : List (String × String × String) := ["]
    L.append(",\n".join('  ("%s", "%s", "%s")' % r for r in sorted(rows)) + "]")
    rl, nreg = relocks(repo)
    L += ["", "/-- (caller, callee, mutex): inside one of the %d regions of src/lib that run under a MutexLocker, `caller` calls a method of its own class that takes the same" % nreg,
          "    (non-recursive) mutex somewhere in its body -/",
          "def relockCalls : List (String × String × String) := [" + ", ".join('("%s", "%s", "%s")' % r for r in rl) + "]",
          "def lockRegions : Nat := %d" % nreg]
    L += ["", "/-- the whole method runs under its class's mutex -/",
          "def locksFirst (m : String) : Bool := lockFacts.any fun e => e.1 == m && e.2.1 == \"first\"", "", "end Shm.Gen", ""]
    open(os.path.join(outdir, "LockFacts.lean"), "w").write("\n".join(L))
    print("LockFacts.lean: %d methods" % len(rows))


if __name__ == "__main__":
    main()
