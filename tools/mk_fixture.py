"""second half of tools/mk_fixture.sh: run the creation history with the pinned-version harness and store directory + transcript"""
import sys, os, shutil, subprocess, json
sys.path.insert(0, os.path.dirname(os.path.dirname(os.path.abspath(__file__))))
from vlib import core, gen

def run(drv, ops):
    wd = "/tmp/fx-run"; shutil.rmtree(wd, ignore_errors=True); os.makedirs(wd + "/tokens")
    conf = core.scratch_conf(wd, "file", "")
    open(wd + "/ops.txt", "w").write(ops)
    env = dict(os.environ); env["SOFTHSM2_CONF"] = conf; env["VERIF_TOKENDIR"] = wd + "/tokens"
    p = subprocess.run([drv, wd + "/ops.txt"], env=env, stdout=subprocess.PIPE, stderr=subprocess.PIPE)
    assert p.returncode == 0, p.stderr
    return wd, p.stdout.decode("latin1")

def main(drv, pin):
    tables = gen.load_tables()
    ops, labels, toks = gen.fixture_ops(tables)
    wd, out = run(drv, ops)
    # calls the pinned version refuses leave debris behind there (a defect repaired since: known_findings.txt, C09) — the fixture is made of successful calls only
    L = out.splitlines(); lines = ops.rstrip("\n").split("\n"); n = 0
    for i, (a, b) in enumerate(zip(L[::2], L[1::2])):
        assert a == lines[i]
        if a.split()[0] in ("create", "genkey", "genpair") and b.split()[1] != "0": lines[i] = "nop"; n += 1
    wd, out = run(drv, "\n".join(lines) + "\n")
    fx = os.path.join(core.VERIF, "fixtures", "file-v1"); shutil.rmtree(fx, ignore_errors=True); os.makedirs(fx)
    shutil.copytree(wd + "/tokens", fx + "/tokens")
    open(fx + "/creation.transcript", "w").write(out)
    per_tok = {}
    cur = None
    for a, b in zip(out.splitlines()[::2], out.splitlines()[1::2]):
        w = a.split()
        if w[0] == "open": cur = bytes.fromhex(w[1][2:]).decode()
        if w[0] in ("create", "genkey", "genpair") and b.split()[1] == "0":
            for x in w:
                if x.startswith("3="): per_tok.setdefault(cur, []).append(bytes.fromhex(x[2:]).decode())
    json.dump({"labels": per_tok, "tokens": toks, "pinned_commit": pin, "refused_calls_dropped": n,
               "note": "written by the library built from the pinned commit (before any fix: commit), file backend, OpenSSL 3; regenerate with tools/mk_fixture.sh"},
              open(fx + "/meta.json", "w"), indent=1)
    print("fixture written:", fx, {k: len(v) for k, v in per_tok.items()}, "refused calls dropped:", n)

if __name__ == "__main__":
    main(sys.argv[1], sys.argv[2])
