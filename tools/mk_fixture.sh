#!/bin/sh
# (Re)creates /verif/fixtures/file-v1 with the library built from the PINNED commit (before any fix: commit).  One-time tool, not part of any check:
# the fixture is committed.  Needs a scratch worktree and build under /tmp; both are removed at the end.
set -e
PIN=${1:-4957998}
git -C /repo worktree add --detach /tmp/fx-wt $PIN
cmake -G Ninja -S /tmp/fx-wt -B /tmp/fx-build -DBUILD_TESTS=OFF -DCMAKE_BUILD_TYPE=None "-DCMAKE_CXX_FLAGS=-O1 -g -w" -DENABLE_STATIC=ON -DWITH_CRYPTO_BACKEND=openssl \
  -DENABLE_ECC=ON -DENABLE_EDDSA=ON -DENABLE_P11_KIT=OFF -DDISABLE_NON_PAGED_MEMORY=ON -DWITH_OBJECTSTORE_BACKEND_DB=OFF > /tmp/fx-cmake.log
ninja -C /tmp/fx-build -j16 softhsm2-static > /tmp/fx-ninja.log
g++ -std=c++17 -O1 -g -w -DCRYPTOKI_VISIBILITY -I/tmp/fx-wt/src/lib/pkcs11 /verif/harness/p11drv.cpp /tmp/fx-build/src/lib/libsofthsm2-static.a -lssl -lcrypto -ldl -lpthread -o /tmp/fx-p11drv
python3 /verif/tools/mk_fixture.py /tmp/fx-p11drv $PIN
git -C /repo worktree remove --force /tmp/fx-wt
rm -rf /tmp/fx-build /tmp/fx-p11drv /tmp/fx-run /tmp/fx-cmake.log /tmp/fx-ninja.log
