#!/bin/bash
# tools/recheck_seed.sh <seed id> <property ids...> : apply seeded/<id>/patch.diff to /repo, run the quick checks, undo
ID=$1; shift
git -C /repo diff --quiet -- src || { echo "/repo has local changes"; exit 2; }
git -C /repo apply /verif/seeded/$ID/patch.diff || exit 2
cd /verif
for P in "$@"; do
  out=$(./check $P --tier ${TIER:-quick} 2>/verif/.run/seed-$ID-$P.err); rc=$?
  echo "[$ID] check $P rc=$rc :: $(echo "$out" | grep -c '^VIOLATION') violation lines"; echo "$out" | grep '^VIOLATION' | head -5
done
git -C /repo checkout -- .
git -C /verif checkout -- evidence lean/Shm/Gen 2>/dev/null
