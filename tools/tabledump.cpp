// tabledump — regenerates the finite tables of the model from the code *as compiled from /repo now*:
// each table is the exhaustive evaluation of a pure function of the library over its whole finite domain
// (so the emitted table IS the function), or the enumeration of a static registry of the library.
// Output: JSON on stdout; tools/gen_tables.py turns it into lean/Shm/Gen/*.lean.
#include <cstdio>
#include <cstring>
#include <string>
#include <vector>
#include <map>
#include <set>
#include <list>
#include <memory>
#include <sstream>
#include <typeinfo>
#include <cxxabi.h>
#include "config.h"
#include "cryptoki.h"
#include "access.h"
#include "OSObject.h"
#include "OSAttribute.h"
#include "SessionObjectStore.h"
#include "SessionObject.h"
// read the protected registries of the attribute/object classes (layout is unaffected by access specifiers)
#define protected public
#define private public
#include "P11Attributes.h"
#include "P11Objects.h"
#include "SoftHSM.h"
#include "ObjectFile.h"
#include "OSAttributes.h"
#include "RFC4880.h"
#include <fstream>
#include <unistd.h>
#undef protected
#undef private

static std::string hexs(const unsigned char* p, size_t n) {
	static const char* d = "0123456789abcdef"; std::string s;
	for (size_t i = 0; i < n; i++) { s.push_back(d[p[i] >> 4]); s.push_back(d[p[i] & 15]); }
	return s;
}
static std::string demangle(const char* n) { int st = 0; char* r = abi::__cxa_demangle(n, 0, 0, &st); std::string s = r ? r : n; free(r); return s; }

static bool firstClass = true;
// dump what `P11XObj::init` registers on a fresh object: attribute type, implementing class, check mask, fixed size, default value
template <class T> static void dumpClass(const char* name, CK_ULONG cls, CK_ULONG keyType, CK_ULONG certType, bool hasKeyType) {
	SessionObjectStore store;
	SessionObject* o = store.createObject(1, 1, false);
	T p;
	if (hasKeyType) ((P11Object*)&p)->initialized = false;
	p.init(o);
	printf("%s  {\"name\": \"%s\", \"cls\": %lu, \"keyType\": %lu, \"certType\": %lu, \"attrs\": [", firstClass ? "" : ",\n", name, cls, keyType, certType);
	firstClass = false;
	bool first = true;
	for (std::map<CK_ATTRIBUTE_TYPE, P11Attribute*>::iterator it = p.attributes.begin(); it != p.attributes.end(); ++it) {
		P11Attribute* a = it->second;
		if (a == NULL) continue;
		std::string kind = "absent", val = "";
		if (o->attributeExists(it->first)) {
			OSAttribute at = o->getAttribute(it->first);
			if (at.isBooleanAttribute()) { kind = "bool"; val = at.getBooleanValue() ? "1" : "0"; }
			else if (at.isUnsignedLongAttribute()) { kind = "ulong"; std::ostringstream os; os << at.getUnsignedLongValue(); val = os.str(); }
			else if (at.isByteStringAttribute()) { kind = "bytes"; val = hexs(at.getByteStringValue().const_byte_str(), at.getByteStringValue().size()); }
			else if (at.isMechanismTypeSetAttribute()) { kind = "mechs"; std::ostringstream os; os << at.getMechanismTypeSetValue().size(); val = os.str(); }
			else if (at.isAttributeMapAttribute()) { kind = "amap"; std::ostringstream os; os << at.getAttributeMapValue().size(); val = os.str(); }
		}
		printf("%s\n    {\"type\": %lu, \"cname\": \"%s\", \"checks\": %lu, \"size\": %ld, \"dkind\": \"%s\", \"dval\": \"%s\"}",
			first ? "" : ",", (unsigned long)it->first, demangle(typeid(*a).name()).c_str(), (unsigned long)a->checks, (long)a->size, kind.c_str(), val.c_str());
		first = false;
	}
	printf("]}");
}
template <class T> static void dumpKeyed(const char* name, CK_ULONG cls, CK_ULONG keyType) {
	// P11GenericSecretKeyObj / P11DESSecretKeyObj take their key type through setKeyType (as newP11Object does)
	SessionObjectStore store;
	SessionObject* o = store.createObject(1, 1, false);
	T p; p.setKeyType(keyType); p.init(o);
	printf("%s  {\"name\": \"%s\", \"cls\": %lu, \"keyType\": %lu, \"certType\": 0, \"attrs\": [", firstClass ? "" : ",\n", name, cls, keyType);
	firstClass = false;
	bool first = true;
	for (std::map<CK_ATTRIBUTE_TYPE, P11Attribute*>::iterator it = p.attributes.begin(); it != p.attributes.end(); ++it) {
		P11Attribute* a = it->second; if (a == NULL) continue;
		std::string kind = "absent", val = "";
		if (o->attributeExists(it->first)) {
			OSAttribute at = o->getAttribute(it->first);
			if (at.isBooleanAttribute()) { kind = "bool"; val = at.getBooleanValue() ? "1" : "0"; }
			else if (at.isUnsignedLongAttribute()) { kind = "ulong"; std::ostringstream os; os << at.getUnsignedLongValue(); val = os.str(); }
			else if (at.isByteStringAttribute()) { kind = "bytes"; val = hexs(at.getByteStringValue().const_byte_str(), at.getByteStringValue().size()); }
			else if (at.isMechanismTypeSetAttribute()) { kind = "mechs"; std::ostringstream os; os << at.getMechanismTypeSetValue().size(); val = os.str(); }
			else if (at.isAttributeMapAttribute()) { kind = "amap"; std::ostringstream os; os << at.getAttributeMapValue().size(); val = os.str(); }
		}
		printf("%s\n    {\"type\": %lu, \"cname\": \"%s\", \"checks\": %lu, \"size\": %ld, \"dkind\": \"%s\", \"dval\": \"%s\"}",
			first ? "" : ",", (unsigned long)it->first, demangle(typeid(*a).name()).c_str(), (unsigned long)a->checks, (long)a->size, kind.c_str(), val.c_str());
		first = false;
	}
	printf("]}");
}

int main() {
	printf("{\n");
	// ---- access matrix (src/lib/access.cpp) ----
	const char* names[5] = { "roPublic", "roUser", "rwPublic", "rwUser", "rwSO" };
	const CK_STATE states[5] = { CKS_RO_PUBLIC_SESSION, CKS_RO_USER_FUNCTIONS, CKS_RW_PUBLIC_SESSION, CKS_RW_USER_FUNCTIONS, CKS_RW_SO_FUNCTIONS };
	for (int w = 0; w < 2; w++) {
		printf(" \"%s\": [", w ? "haveWrite" : "haveRead");
		bool first = true;
		for (int s = 0; s < 5; s++) for (int tok = 0; tok < 2; tok++) for (int priv = 0; priv < 2; priv++) {
			CK_RV rv = w ? haveWrite(states[s], tok, priv) : haveRead(states[s], tok, priv);
			printf("%s[\"%s\", %d, %d, %lu]", first ? "" : ", ", names[s], tok, priv, rv);
			first = false;
		}
		printf("],\n");
	}
	// ---- object class tables (P11Objects.cpp init chains + P11Attributes.h constructors), by execution ----
	printf(" \"classes\": [\n");
	dumpClass<P11DataObj>("DATA", CKO_DATA, 0, 0, false);
	dumpClass<P11X509CertificateObj>("CERT_X509", CKO_CERTIFICATE, 0, CKC_X_509, false);
	dumpClass<P11OpenPGPPublicKeyObj>("CERT_OPENPGP", CKO_CERTIFICATE, 0, CKC_OPENPGP, false);
	dumpClass<P11RSAPublicKeyObj>("PUB_RSA", CKO_PUBLIC_KEY, CKK_RSA, 0, false);
	dumpClass<P11DSAPublicKeyObj>("PUB_DSA", CKO_PUBLIC_KEY, CKK_DSA, 0, false);
	dumpClass<P11ECPublicKeyObj>("PUB_EC", CKO_PUBLIC_KEY, CKK_EC, 0, false);
	dumpClass<P11DHPublicKeyObj>("PUB_DH", CKO_PUBLIC_KEY, CKK_DH, 0, false);
	dumpClass<P11EDPublicKeyObj>("PUB_ED", CKO_PUBLIC_KEY, CKK_EC_EDWARDS, 0, false);
	dumpClass<P11RSAPrivateKeyObj>("PRIV_RSA", CKO_PRIVATE_KEY, CKK_RSA, 0, false);
	dumpClass<P11DSAPrivateKeyObj>("PRIV_DSA", CKO_PRIVATE_KEY, CKK_DSA, 0, false);
	dumpClass<P11ECPrivateKeyObj>("PRIV_EC", CKO_PRIVATE_KEY, CKK_EC, 0, false);
	dumpClass<P11DHPrivateKeyObj>("PRIV_DH", CKO_PRIVATE_KEY, CKK_DH, 0, false);
	dumpClass<P11EDPrivateKeyObj>("PRIV_ED", CKO_PRIVATE_KEY, CKK_EC_EDWARDS, 0, false);
	dumpClass<P11AESSecretKeyObj>("SECRET_AES", CKO_SECRET_KEY, CKK_AES, 0, false);
	{ const CK_ULONG g[7] = { CKK_GENERIC_SECRET, CKK_MD5_HMAC, CKK_SHA_1_HMAC, CKK_SHA224_HMAC, CKK_SHA256_HMAC, CKK_SHA384_HMAC, CKK_SHA512_HMAC };
	  const char* gn[7] = { "SECRET_GENERIC", "SECRET_MD5_HMAC", "SECRET_SHA1_HMAC", "SECRET_SHA224_HMAC", "SECRET_SHA256_HMAC", "SECRET_SHA384_HMAC", "SECRET_SHA512_HMAC" };
	  for (int i = 0; i < 7; i++) dumpKeyed<P11GenericSecretKeyObj>(gn[i], CKO_SECRET_KEY, g[i]); }
	dumpKeyed<P11DESSecretKeyObj>("SECRET_DES", CKO_SECRET_KEY, CKK_DES);
	dumpKeyed<P11DESSecretKeyObj>("SECRET_DES2", CKO_SECRET_KEY, CKK_DES2);
	dumpKeyed<P11DESSecretKeyObj>("SECRET_DES3", CKO_SECRET_KEY, CKK_DES3);
	dumpClass<P11DSADomainObj>("DOMAIN_DSA", CKO_DOMAIN_PARAMETERS, CKK_DSA, 0, false);
	dumpClass<P11DHDomainObj>("DOMAIN_DH", CKO_DOMAIN_PARAMETERS, CKK_DH, 0, false);
	printf("\n ],\n");
	// ---- mechanism registry (SoftHSM::prepareSupportedMecahnisms) and C_GetMechanismInfo, by execution ----
	{
		std::map<std::string, CK_MECHANISM_TYPE> mt;
		SoftHSM::i()->prepareSupportedMecahnisms(mt);
		CK_RV rv = C_Initialize(NULL_PTR);
		CK_SLOT_ID slots[8]; CK_ULONG ns = 8; C_GetSlotList(CK_FALSE, slots, &ns);
		printf(" \"mechs\": [");
		bool first = true;
		for (std::map<std::string, CK_MECHANISM_TYPE>::iterator it = mt.begin(); it != mt.end(); ++it) {
			CK_MECHANISM_INFO mi; memset(&mi, 0, sizeof(mi));
			CK_RV r2 = (rv == CKR_OK && ns > 0) ? C_GetMechanismInfo(slots[0], it->second, &mi) : CKR_GENERAL_ERROR;
			printf("%s\n  {\"name\": \"%s\", \"type\": %lu, \"info_rv\": %lu, \"min\": %lu, \"max\": %lu, \"flags\": %lu}", first ? "" : ",",
				it->first.c_str(), (unsigned long)it->second, (unsigned long)r2, mi.ulMinKeySize, mi.ulMaxKeySize, (unsigned long)mi.flags);
			first = false;
		}
		printf("\n ],\n");
		if (rv == CKR_OK) C_Finalize(NULL_PTR);
	}
	// ---- the object-file writer, by execution: an object with one attribute of every kind is stored by the real ObjectFile and read back as bytes ----
	{
		char tmpl[] = "/tmp/verif-storedump-XXXXXX"; char* d = mkdtemp(tmpl);
		std::string path = std::string(d) + "/sample.object", lock = std::string(d) + "/sample.lock";
		{
			ObjectFile of(NULL, path, 077, lock, true);
			of.startTransaction(OSObject::ReadWrite);
			of.setAttribute(CKA_CLASS, OSAttribute((unsigned long)CKO_SECRET_KEY));
			of.setAttribute(CKA_TOKEN, OSAttribute(true));
			of.setAttribute(CKA_PRIVATE, OSAttribute(false));
			of.setAttribute(CKA_LABEL, OSAttribute(ByteString("6c6162656c")));
			of.setAttribute(CKA_ID, OSAttribute(ByteString("")));
			std::set<CK_MECHANISM_TYPE> ms; ms.insert(CKM_AES_CBC); ms.insert(CKM_AES_ECB); ms.insert(CKM_SHA256_HMAC);
			of.setAttribute(CKA_ALLOWED_MECHANISMS, OSAttribute(ms));
			std::map<CK_ATTRIBUTE_TYPE, OSAttribute> am;
			am.insert(std::pair<CK_ATTRIBUTE_TYPE, OSAttribute>(CKA_ENCRYPT, OSAttribute(true)));
			am.insert(std::pair<CK_ATTRIBUTE_TYPE, OSAttribute>(CKA_VALUE_LEN, OSAttribute((unsigned long)32)));
			am.insert(std::pair<CK_ATTRIBUTE_TYPE, OSAttribute>(CKA_LABEL, OSAttribute(ByteString("696e6e6572"))));
			am.insert(std::pair<CK_ATTRIBUTE_TYPE, OSAttribute>(CKA_ALLOWED_MECHANISMS, OSAttribute(ms)));
			of.setAttribute(CKA_WRAP_TEMPLATE, OSAttribute(am));
			of.setAttribute(CKA_OS_TOKENFLAGS, OSAttribute((unsigned long)0x42D));
			of.commitTransaction();
		}
		std::ifstream f(path.c_str(), std::ios::binary); std::vector<unsigned char> c((std::istreambuf_iterator<char>(f)), std::istreambuf_iterator<char>());
		printf(" \"store_sample\": \"");
		for (size_t i = 0; i < c.size(); i++) printf("%02x", c[i]);
		printf("\",\n");
		unlink(path.c_str()); unlink(lock.c_str()); rmdir(d);
		printf(" \"store_consts\": {\"CKA_OS_TOKENLABEL\": %lu, \"CKA_OS_TOKENSERIAL\": %lu, \"CKA_OS_TOKENFLAGS\": %lu, \"CKA_OS_SOPIN\": %lu, \"CKA_OS_USERPIN\": %lu, "
		       "\"PBE_ITERATION_BASE_COUNT\": %lu, \"MIN_PIN_LEN\": %lu, \"MAX_PIN_LEN\": %lu},\n",
		       (unsigned long)CKA_OS_TOKENLABEL, (unsigned long)CKA_OS_TOKENSERIAL, (unsigned long)CKA_OS_TOKENFLAGS, (unsigned long)CKA_OS_SOPIN, (unsigned long)CKA_OS_USERPIN,
		       (unsigned long)PBE_ITERATION_BASE_COUNT, (unsigned long)MIN_PIN_LEN, (unsigned long)MAX_PIN_LEN);
	}
	printf(" \"end\": 0\n}\n");
	return 0;
}
