// tabledump — regenerates the finite tables of the model from the code *as compiled from /repo now*:
// each table is the exhaustive evaluation of a pure function of the library over its whole finite domain
// (so the emitted table IS the function), or the enumeration of a static registry of the library.
// Output: JSON on stdout; tools/gen_tables.py turns it into lean/Shm/Gen/*.lean.
#include <cstdio>
#include <cstring>
#include <string>
#include <vector>
#include "cryptoki.h"
#include "access.h"

int main() {
	printf("{\n");
	// ---- access matrix (src/lib/access.cpp) ----
	const char* names[5] = { "roPublic", "roUser", "rwPublic", "rwUser", "rwSO" };
	const CK_STATE states[5] = { CKS_RO_PUBLIC_SESSION, CKS_RO_USER_FUNCTIONS, CKS_RW_PUBLIC_SESSION, CKS_RW_USER_FUNCTIONS, CKS_RW_SO_FUNCTIONS };
	for (int w = 0; w < 2; w++) {
		printf(" \"%s\": [", w ? "haveWrite" : "haveRead");
		bool first = true;
		for (int s = 0; s < 5; s++) for (int tok = 0; tok < 2; tok++) for (int priv = 0; priv < 2; priv++) {
			CK_RV rv = w ? haveWrite(states[s], tok, priv) : haveRead(states[s], tok, priv);
			printf("%s[\"%s\", %d, %d, %lu]", first ? "" : ", ", names[s], tok, priv, rv);
			first = false;
		}
		printf("],\n");
	}
	printf(" \"end\": 0\n}\n");
	return 0;
}
