#!/usr/bin/env python3
"""T-obligation translator: C++ (P11Attributes.cpp) -> JSON IR of every `P11AttrX::updateAttr` body and of
`P11Attribute::update` (the footnote logic), for lean/Shm/Gen/AttrUpdate.lean.

The bodies are written in a small, stylised subset of C++ (if/else, return, setAttribute on booleans /
unsigned longs, a few predicates).  That subset is parsed into a decision tree (continuation-passing form):
    ret rv | callUpdateAttr | callBase | act a k | ite cond then else k | fall
Bodies outside the subset (byte-string idioms with encryption, key check values, attribute maps, mechanism
sets) are recognised as a whole by their normalised token hash and named; an unrecognised body is emitted as
`unknown` (a broken T-obligation that the checks report), never silently skipped."""
import re, sys, json, hashlib, subprocess, os, tempfile

TOKEN = re.compile(r'\s*(->|::|==|!=|&&|\|\||<=|>=|\+\+|--|<<|>>|[A-Za-z_]\w*|0[xX][0-9a-fA-F]+|\d+|"(?:\\.|[^"\\])*"|.)', re.S)


def strip_comments(s):
    s = re.sub(r'/\*.*?\*/', ' ', s, flags=re.S)
    s = re.sub(r'//[^\n]*', ' ', s)
    return s


def tokenize(s):
    return [m.group(1) for m in TOKEN.finditer(s) if m.group(1).strip()]


def find_functions(src):
    """-> {qualified name: body token list}"""
    out = {}
    for m in re.finditer(r'\b(?:CK_RV|bool)\s+(P11Attr\w*)::(updateAttr|update|setDefault)\s*\(([^)]*)\)\s*\{', src):
        i = m.end(); depth = 1
        while depth:
            c = src[i]
            depth += (c == '{') - (c == '}')
            i += 1
        out[(m.group(1), m.group(2))] = tokenize(src[m.end():i - 1])
    return out


class P:
    def __init__(self, toks): self.t, self.i = toks, 0
    def peek(self): return self.t[self.i] if self.i < len(self.t) else None
    def next(self): x = self.t[self.i]; self.i += 1; return x
    def expect(self, x):
        if self.next() != x: raise ValueError("expected " + x)
    def until_matching(self, open_, close):
        """tokens up to the matching close (open already consumed)"""
        depth, out = 1, []
        while True:
            x = self.next()
            if x == open_: depth += 1
            elif x == close:
                depth -= 1
                if depth == 0: return out
            out.append(x)
    def stmt(self):
        x = self.peek()
        if x == '{':
            self.next(); body = []
            while self.peek() != '}': body.append(self.stmt())
            self.next()
            return ('block', body)
        if x == 'if':
            self.next(); self.expect('(')
            cond = self.until_matching('(', ')')
            th = self.stmt(); el = ('block', [])
            if self.peek() == 'else': self.next(); el = self.stmt()
            return ('if', cond, th, el)
        if x in ('switch', 'for', 'while', 'do'):
            raise ValueError("unsupported statement " + x)
        if x in ('ERROR_MSG', 'DEBUG_MSG', 'INFO_MSG', 'WARNING_MSG'):
            # logging macros (some call sites have no trailing semicolon)
            self.next(); self.expect('('); self.until_matching('(', ')')
            if self.peek() == ';': self.next()
            return ('block', [])
        toks = []
        depth = 0
        while True:
            y = self.next()
            if y in '([{': depth += 1
            if y in ')]}': depth -= 1
            if y == ';' and depth == 0: break
            toks.append(y)
        if toks and toks[0] == 'return': return ('return', toks[1:])
        return ('expr', toks)


def split_top(toks, op):
    parts, cur, depth = [], [], 0
    for t in toks:
        if t == '(': depth += 1
        if t == ')': depth -= 1
        if t == op and depth == 0: parts.append(cur); cur = []
        else: cur.append(t)
    parts.append(cur)
    return parts


def strip_parens(toks):
    while toks and toks[0] == '(' and toks[-1] == ')':
        depth = 0
        for i, t in enumerate(toks):
            if t == '(': depth += 1
            if t == ')': depth -= 1
            if depth == 0 and i < len(toks) - 1: return toks
        toks = toks[1:-1]
    return toks


SIZES = {'CK_BBOOL': 1, 'CK_ULONG': 8, 'CK_DATE': 8, 'CK_ATTRIBUTE': 24, 'CK_MECHANISM_TYPE': 8}
consts_needed = set()


def C(name):
    consts_needed.add(name); return {'const': name}


def cond(toks):
    toks = strip_parens(toks)
    parts = split_top(toks, '||')
    if len(parts) > 1:
        r = cond(parts[0])
        for p in parts[1:]: r = {'k': 'or', 'a': r, 'b': cond(p)}
        return r
    parts = split_top(toks, '&&')
    if len(parts) > 1:
        r = cond(parts[0])
        for p in parts[1:]: r = {'k': 'and', 'a': r, 'b': cond(p)}
        return r
    if toks and toks[0] == '!':
        return {'k': 'not', 'a': cond(toks[1:])}
    s = ''.join(toks)
    m = re.fullmatch(r'ulValueLen(!=|==)sizeof\((\w+)\)', s)
    if m:
        c = {'k': 'lenNe', 'n': SIZES[m.group(2)]}
        return c if m.group(1) == '!=' else {'k': 'not', 'a': c}
    m = re.fullmatch(r'ulValueLen(!=|==)(\d+)', s)
    if m:
        c = {'k': 'lenNe', 'n': int(m.group(2))}
        return c if m.group(1) == '!=' else {'k': 'not', 'a': c}
    if s == '*(CK_BBOOL*)pValue==CK_FALSE': return {'k': 'valFalse'}
    if s == '*(CK_BBOOL*)pValue!=CK_FALSE' or s == '*(CK_BBOOL*)pValue==CK_TRUE': return {'k': 'not', 'a': {'k': 'valFalse'}}
    m = re.fullmatch(r'osobject->getBooleanValue\((CKA_\w+),(true|false)\)(==false|==true|!=true|!=false)?', s)
    if m:
        c = {'k': 'objBool', 'attr': C(m.group(1)), 'dflt': m.group(2) == 'true'}
        return {'k': 'not', 'a': c} if m.group(3) in ('==false', '!=true') else c
    m = re.fullmatch(r'osobject->getUnsignedLongValue\((CKA_\w+),(\w+)\)!=\*\(CK_ULONG\*\)pValue', s)
    if m: return {'k': 'objULongNeVal', 'attr': C(m.group(1)), 'dflt': C(m.group(2))}
    m = re.fullmatch(r'osobject->getUnsignedLongValue\((CKA_\w+),(\w+)\)(==|!=)(CK\w+)', s)
    if m:
        c = {'k': 'objULongEq', 'attr': C(m.group(1)), 'dflt': C(m.group(2)), 'val': C(m.group(4))}
        return c if m.group(3) == '==' else {'k': 'not', 'a': c}
    m = re.fullmatch(r'op(==|!=)(OBJECT_OP_\w+)', s) or None
    if m:
        c = {'k': 'opIs', 'op': C(m.group(2))}
        return c if m.group(1) == '==' else {'k': 'not', 'a': c}
    m = re.fullmatch(r'(OBJECT_OP_\w+)(==|!=)op', s)
    if m:
        c = {'k': 'opIs', 'op': C(m.group(1))}
        return c if m.group(2) == '==' else {'k': 'not', 'a': c}
    if s == 'token->isSOLoggedIn()': return {'k': 'soLoggedIn'}
    if s == 'isPrivate': return {'k': 'isPrivate'}
    m = re.fullmatch(r'osobject->attributeExists\((CKA_\w+)\)', s)
    if m: return {'k': 'objHas', 'attr': C(m.group(1))}
    # ---- P11Attribute::update ----
    if s == 'osobject==NULL': return {'k': 'false'}
    if s == 'pValue==NULL_PTR': return {'k': 'valNull'}
    if s == 'size!=((CK_ULONG)-1)': return {'k': 'sizeFixed'}
    if s == 'size!=ulValueLen': return {'k': 'sizeNeLen'}
    if s == 'isModifiable()': return {'k': 'objBool', 'attr': C('CKA_MODIFIABLE'), 'dflt': True}
    if s == 'isTrusted()': return {'k': 'objBool', 'attr': C('CKA_TRUSTED'), 'dflt': False}
    m = re.fullmatch(r'\(checks&ck(\d+)\)==ck(\d+)', s)
    if m and m.group(1) == m.group(2): return {'k': 'hasCheck', 'n': int(m.group(1))}
    raise ValueError("unsupported condition: " + s)


def action(toks):
    s = ''.join(toks)
    if re.fullmatch(r'(ERROR_MSG|DEBUG_MSG|INFO_MSG|WARNING_MSG)\(.*\)', s): return None
    if re.fullmatch(r'OSAttributeattr(True|False)\((true|false)\)', s): return None
    m = re.fullmatch(r'osobject->setAttribute\((type|CKA_\w+),attr(True|False)\)', s)
    if m: return {'k': 'setBool', 'attr': None if m.group(1) == 'type' else C(m.group(1)), 'v': m.group(2) == 'True'}
    if s == 'osobject->setAttribute(type,*(CK_ULONG*)pValue)': return {'k': 'setULongVal'}
    if s == 'osobject->setAttribute(type,ByteString((unsignedchar*)pValue,ulValueLen))': return {'k': 'setBytesPlain'}
    raise ValueError("unsupported statement: " + s)


def ret(toks):
    s = ''.join(toks)
    if re.fullmatch(r'CKR_\w+', s): return {'t': 'ret', 'rv': C(s)}
    if s == 'updateAttr(token,isPrivate,pValue,ulValueLen,op)': return {'t': 'callUpdateAttr'}
    if s == 'P11Attribute::updateAttr(token,isPrivate,pValue,ulValueLen,op)': return {'t': 'callBase'}
    raise ValueError("unsupported return: " + s)


def tr(stmts):
    """statement list -> program tree; `ite` carries the continuation that runs when the taken branch falls through"""
    if not stmts: return {'t': 'fall'}
    st, rest = stmts[0], stmts[1:]
    if st[0] == 'block': return tr(st[1] + rest)
    if st[0] == 'return': return ret(st[1])
    if st[0] == 'expr':
        a = action(st[1])
        return tr(rest) if a is None else {'t': 'act', 'a': a, 'k': tr(rest)}
    if st[0] == 'if':
        return {'t': 'ite', 'c': cond(st[1]), 'th': tr([st[2]]), 'el': tr([st[3]]), 'k': tr(rest)}
    raise ValueError(st[0])


# bodies outside the subset, recognised as a whole (sha1 of the normalised token stream, from the pinned tree)
SPECIAL = {}


def special_kind(h):
    return SPECIAL.get(h, 'unknown')


def translate(path, special_map):
    global SPECIAL
    SPECIAL = special_map
    src = strip_comments(open(path).read())
    funs = find_functions(src)
    res = {}
    for (cls, fn), toks in sorted(funs.items()):
        if fn == 'setDefault': continue
        h = hashlib.sha1(' '.join(toks).encode()).hexdigest()[:16]
        try:
            p = P(toks + ['}'])
            body = []
            while p.peek() != '}': body.append(p.stmt())
            tree = tr(body)
            res[cls + '::' + fn] = {'hash': h, 'tree': tree}
        except ValueError as e:
            res[cls + '::' + fn] = {'hash': h, 'special': special_kind(h), 'why': str(e)}
    return res


def resolve_consts(names, repo, build_inc):
    """numeric values of the identifiers the bodies mention, by compiling a tiny program against the headers"""
    names = sorted(n for n in names if n != 'FALLTHROUGH')
    code = '#include "config.h"\n#include "cryptoki.h"\n#include "P11Attributes.h"\n#include <cstdio>\nint main(){\n'
    for n in names: code += f'  printf("{n} %lu\\n", (unsigned long)({n}));\n'
    code += 'return 0;}\n'
    with tempfile.TemporaryDirectory() as d:
        open(os.path.join(d, 'c.cpp'), 'w').write(code)
        incs = [f'-I{repo}/src/lib/{x}' for x in ('', 'common', 'crypto', 'data_mgr', 'object_store', 'session_mgr', 'slot_mgr', 'pkcs11', 'handle_mgr')] + [f'-I{build_inc}']
        subprocess.run(['g++', '-std=c++11', '-w', '-DCRYPTOKI_VISIBILITY'] + incs + [os.path.join(d, 'c.cpp'), '-o', os.path.join(d, 'c')], check=True)
        out = subprocess.run([os.path.join(d, 'c')], stdout=subprocess.PIPE, text=True, check=True).stdout
    vals = {'FALLTHROUGH': 0xFFFFFFFF}
    for line in out.splitlines():
        n, v = line.split(); vals[n] = int(v)
    return vals


def subst(node, vals):
    if isinstance(node, dict):
        if set(node.keys()) == {'const'}: return vals[node['const']]
        return {k: subst(v, vals) for k, v in node.items()}
    if isinstance(node, list): return [subst(x, vals) for x in node]
    return node


if __name__ == '__main__':
    repo, build_inc, special_json, outp = sys.argv[1:5]
    special = json.load(open(special_json)) if os.path.exists(special_json) else {}
    res = translate(os.path.join(repo, 'src/lib/P11Attributes.cpp'), special)
    vals = resolve_consts(consts_needed, repo, build_inc)
    json.dump({'funs': subst(res, vals)}, open(outp, 'w'), indent=1)
    n_tree = sum(1 for v in res.values() if 'tree' in v)
    unk = [k for k, v in res.items() if v.get('special') == 'unknown']
    print(f"translate_attrs: {n_tree} bodies translated to decision trees, {len(res) - n_tree} recognised as named idioms, unknown: {unk}")
