// p11drv — line-protocol driver for the SoftHSMv2 PKCS#11 library built from /repo's working tree.
// Reads one operation per line (file argv[1] or stdin), echoes it (flushed) *before* executing it, then
// prints one canonical result line starting with "= ".  The transcript is what the Lean model checks.
//
// Argument forms
//   handles : literal decimal | @k (first handle returned by op number k) | @k.i (i-th handle, 0-based)
//   slots   : literal decimal | free (the uninitialised slot) | t:<labelhex> (token with that label prefix)
//   bytes   : hex | . (empty) | - (NULL pointer)
//   template entries : <typehex>=<hex|.>   |  <typehex>=!<len> (NULL pointer, given length)
//                      <typehex>={e;e;...} (nested template: array of CK_ATTRIBUTE)
#include <cstdio>
#include <cstdlib>
#include <cstring>
#include <string>
#include <vector>
#include <stdint.h>
#include <map>
#include <sstream>
#include <iostream>
#include <fstream>
#include <algorithm>
#include <memory>
#include <unistd.h>
#include <signal.h>
#include <filesystem>
#include "cryptoki.h"
#include <dlfcn.h>
#include <sys/wait.h>
#include <sys/stat.h>
#include <fcntl.h>
#include <stdarg.h>
#include <errno.h>
#include <stdio_ext.h>

// ---- file-system interposition (C16 crash points, C05 fault injection) -----------------------------------------------------------
// The library is linked statically into this executable, so its calls to the libc entry points below bind to these definitions.
// While `fsArmed` every call is counted; the fsCrashAt-th call ends the process on the spot with _exit (no stdio flush: the kernel state
// is exactly what a SIGKILL at that instant leaves); the fsFailAt-th call fails the way a full or broken disk makes it fail.
static volatile long fsCount = 0; static volatile int fsArmed = 0; static long fsCrashAt = 0, fsFailAt = 0, fsPauseAt = 0;
static char fsLog[131072]; static size_t fsLogLen = 0;
static void fsNote(const char* what) { if (fsLogLen + strlen(what) + 2 < sizeof fsLog) { memcpy(fsLog + fsLogLen, what, strlen(what)); fsLogLen += strlen(what); fsLog[fsLogLen++] = ','; fsLog[fsLogLen] = 0; } }
// returns 1 when this call has to fail
static int fsTick(const char* what) {
	if (!fsArmed) return 0;
	long n = ++fsCount; fsNote(what);
	if (fsCrashAt && n == fsCrashAt) _exit(137);
	if (fsPauseAt && n == fsPauseAt) {
		// C15 at file-operation granularity: tell the coordinator where we stand and wait (inside the library call, locks held as they are) for its "resume" line
		const char* m = "~ paused\n"; if (write(1, m, 9)) {}
		char c; while (read(0, &c, 1) == 1 && c != '\n') {}
	}
	return (fsFailAt && n == fsFailAt) ? 1 : 0;
}
template <typename F> static F realfn(const char* name) { return (F)dlsym(RTLD_NEXT, name); }
extern "C" {
int open(const char* path, int flags, ...) {
	mode_t mode = 0; if (flags & O_CREAT) { va_list ap; va_start(ap, flags); mode = (mode_t)va_arg(ap, int); va_end(ap); }
	static auto real = realfn<int (*)(const char*, int, ...)>("open");
	if ((flags & (O_WRONLY | O_RDWR | O_CREAT | O_TRUNC)) && fsTick("open")) { errno = ENOSPC; return -1; }
	return real(path, flags, mode);
}
size_t fwrite(const void* p, size_t sz, size_t n, FILE* f) {
	static auto real = realfn<size_t (*)(const void*, size_t, size_t, FILE*)>("fwrite");
	if (f != stdout && f != stderr && fsTick("fwrite")) { errno = ENOSPC; return 0; }
	return real(p, sz, n, f);
}
int fflush(FILE* f) {
	static auto real = realfn<int (*)(FILE*)>("fflush");
	if (f && f != stdout && f != stderr && fsTick("fflush")) { __fpurge(f); errno = ENOSPC; return EOF; }
	return real(f);
}
int fclose(FILE* f) {
	static auto real = realfn<int (*)(FILE*)>("fclose");
	if (f != stdout && f != stderr && fsTick("fclose")) { __fpurge(f); real(f); errno = EIO; return EOF; }
	return real(f);
}
int ftruncate(int fd, off_t len) {
	static auto real = realfn<int (*)(int, off_t)>("ftruncate");
	if (fsTick("ftruncate")) { errno = EIO; return -1; }
	return real(fd, len);
}
int remove(const char* path) {
	static auto real = realfn<int (*)(const char*)>("remove");
	if (fsTick("remove")) { errno = EIO; return -1; }
	return real(path);
}
int mkdir(const char* path, mode_t mode) {
	static auto real = realfn<int (*)(const char*, mode_t)>("mkdir");
	if (fsTick("mkdir")) { errno = ENOSPC; return -1; }
	return real(path, mode);
}
int rmdir(const char* path) {
	static auto real = realfn<int (*)(const char*)>("rmdir");
	if (fsTick("rmdir")) { errno = EIO; return -1; }
	return real(path);
}
}

typedef std::vector<unsigned char> Bytes;
static thread_local FILE* out = stdout;   // per thread: the threaded mode (C18) collects each call's lines in a memory stream
static std::map<long, std::vector<CK_ULONG> > results;   // op number -> handles it returned
static thread_local long opNo = 0;
static std::map<long, Bytes> outs;    // op number -> bytes an encrypt / sign call returned (for `decrelay` / `verrelay`)
static std::map<long, Bytes> blobs;   // op number -> bytes a wrap call returned (for `unwrap ... blob:@k[,mutation]`)
static CK_ULONG maxHandleSeen = 0;
static std::string gOpsFile, gSelf;       // for `reexec`
extern size_t gPos;
#include <sys/stat.h>

static std::string hex(const unsigned char* p, size_t n) {
	if (n == 0) return ".";
	static const char* d = "0123456789abcdef";
	std::string s; s.reserve(2*n);
	for (size_t i = 0; i < n; i++) { s.push_back(d[p[i] >> 4]); s.push_back(d[p[i] & 15]); }
	return s;
}
static std::string hex(const Bytes& b) { return hex(b.data(), b.size()); }
static bool unhex(const std::string& s, Bytes& b) {
	b.clear();
	if (s == ".") return true;
	if (s.size() % 2) return false;
	for (size_t i = 0; i < s.size(); i += 2) {
		unsigned v; if (sscanf(s.substr(i,2).c_str(), "%2x", &v) != 1) return false;
		b.push_back((unsigned char)v);
	}
	return true;
}
struct OptBytes { bool null; Bytes b; };
static OptBytes optBytes(const std::string& s) { OptBytes o; o.null = (s == "-"); if (!o.null) unhex(s, o.b); return o; }

static void note(CK_ULONG h) { if (h != CK_INVALID_HANDLE && h != (CK_ULONG)-1 && h > maxHandleSeen && h < (1UL<<40)) maxHandleSeen = h; }

static CK_ULONG handleArg(const std::string& s) {
	if (s.size() && s[0] == '@') {
		long k = 0; long i = 0;
		size_t dot = s.find('.');
		k = atol(s.substr(1, dot == std::string::npos ? std::string::npos : dot-1).c_str());
		if (dot != std::string::npos) i = atol(s.substr(dot+1).c_str());
		std::map<long, std::vector<CK_ULONG> >::iterator it = results.find(k);
		if (it == results.end() || (size_t)i >= it->second.size()) return 0;
		return it->second[i];
	}
	return strtoul(s.c_str(), NULL, 0);
}

struct SlotRow { CK_SLOT_ID id; bool init; CK_FLAGS flags; std::string label, serial; };
static std::vector<SlotRow> listSlots(bool sideEffectFree, CK_RV* prv) {
	std::vector<SlotRow> rows;
	CK_SLOT_ID ids[256]; CK_ULONG n = 256;
	CK_RV rv;
	if (!sideEffectFree) { CK_ULONG m = 0; rv = C_GetSlotList(CK_FALSE, NULL_PTR, &m); if (rv != CKR_OK) { *prv = rv; return rows; } }
	rv = C_GetSlotList(CK_FALSE, ids, &n);
	*prv = rv;
	if (rv != CKR_OK) return rows;
	for (CK_ULONG i = 0; i < n; i++) {
		CK_TOKEN_INFO ti; memset(&ti, 0, sizeof(ti));
		SlotRow r; r.id = ids[i]; r.init = false; r.flags = 0;
		if (C_GetTokenInfo(ids[i], &ti) == CKR_OK) {
			r.flags = ti.flags; r.init = (ti.flags & CKF_TOKEN_INITIALIZED) != 0;
			r.label = hex(ti.label, 32); r.serial = hex(ti.serialNumber, 16);
		} else { r.label = "-"; r.serial = "-"; }
		rows.push_back(r);
	}
	return rows;
}
static std::map<std::string, CK_SLOT_ID> gSlotCache;     // label prefix -> slot id of the last `t:` look-up (`c:<label>` re-uses it WITHOUT asking the library again)
static CK_SLOT_ID slotArg(const std::string& s) {
	if (s.rfind("c:", 0) == 0) {
		std::map<std::string, CK_SLOT_ID>::iterator it = gSlotCache.find(s.substr(2));
		return it == gSlotCache.end() ? 0x7fffffff : it->second;
	}
	if (s == "free" || s.rfind("t:", 0) == 0) {
		CK_RV rv; std::vector<SlotRow> rows = listSlots(true, &rv);
		for (size_t i = 0; i < rows.size(); i++) {
			if (s == "free") { if (!rows[i].init) return rows[i].id; }
			else if (rows[i].init && rows[i].label.rfind(s.substr(2), 0) == 0) { gSlotCache[s.substr(2)] = rows[i].id; return rows[i].id; }
		}
		return 0x7fffffff;   // no such slot
	}
	return strtoul(s.c_str(), NULL, 0);
}

// ---- templates -------------------------------------------------------------------------------------
struct Tpl {
	std::vector<CK_ATTRIBUTE> a;
	std::vector<std::unique_ptr<Bytes> > store;
	std::vector<std::unique_ptr<Tpl> > nested;
};
static bool parseEntry(const std::string& tok, Tpl& t);
static bool parseTplTokens(const std::vector<std::string>& toks, size_t from, Tpl& t) {
	for (size_t i = from; i < toks.size(); i++) if (!parseEntry(toks[i], t)) return false;
	return true;
}
static bool parseEntry(const std::string& tok, Tpl& t) {
	size_t eq = tok.find('=');
	if (eq == std::string::npos) return false;
	CK_ATTRIBUTE at; at.type = strtoul(tok.substr(0, eq).c_str(), NULL, 16);
	std::string v = tok.substr(eq+1);
	if (v.size() && v[0] == '!') { at.pValue = NULL_PTR; at.ulValueLen = strtoul(v.c_str()+1, NULL, 0); }
	else if (v.size() && v[0] == '{') {
		std::unique_ptr<Tpl> sub(new Tpl());
		std::string body = v.substr(1, v.size()-2);
		std::stringstream ss(body); std::string e;
		while (std::getline(ss, e, ';')) if (e.size() && !parseEntry(e, *sub)) return false;
		at.pValue = sub->a.empty() ? NULL_PTR : sub->a.data(); at.ulValueLen = sub->a.size() * sizeof(CK_ATTRIBUTE);
		t.nested.push_back(std::move(sub));
	} else {
		std::unique_ptr<Bytes> b(new Bytes());
		if (!unhex(v, *b)) return false;
		b->reserve(b->size() + 1);
		at.pValue = b->empty() ? (CK_VOID_PTR)"" : (CK_VOID_PTR)b->data(); at.ulValueLen = b->size();
		t.store.push_back(std::move(b));
	}
	t.a.push_back(at);
	return true;
}

static CK_ULONG handleArg(const std::string& s);

// ---- mechanisms ------------------------------------------------------------------------------------
// <mechhex>            no parameter
// <mechhex>:<hex>      raw parameter bytes
// <mechhex>:gcm(iv,aad,tagbits) | ctr(bits,cb16) | oaep(hash,mgf,labelhex) | pss(hash,mgf,slen) | ecdh(kdf,pubhex)
//            | str(hex) (CK_KEY_DERIVATION_STRING_DATA) | cbcd(ivhex,datahex) (CK_xxx_CBC_ENCRYPT_DATA_PARAMS) | obj(handle)
struct Mech {
	CK_MECHANISM m; Bytes raw, b1, b2; CK_GCM_PARAMS gcm; CK_AES_CTR_PARAMS ctr; CK_RSA_PKCS_OAEP_PARAMS oaep; CK_RSA_PKCS_PSS_PARAMS pss;
	CK_ECDH1_DERIVE_PARAMS ecdh; CK_KEY_DERIVATION_STRING_DATA str; CK_AES_CBC_ENCRYPT_DATA_PARAMS cbca; CK_DES_CBC_ENCRYPT_DATA_PARAMS cbcd; CK_OBJECT_HANDLE obj;
};
static std::vector<std::string> splitArgs(const std::string& s) { std::vector<std::string> v; std::stringstream ss(s); std::string e; while (std::getline(ss, e, ',')) v.push_back(e); if (!s.empty() && s.back() == ',') v.push_back(""); return v; }
static CK_ULONG handleArg(const std::string& s);
static bool parseMech(const std::string& tok, Mech& M) {
	memset(&M.m, 0, sizeof(M.m));
	size_t c = tok.find(':');
	M.m.mechanism = strtoul(tok.substr(0, c).c_str(), NULL, 16);
	M.m.pParameter = NULL_PTR; M.m.ulParameterLen = 0;
	if (c == std::string::npos) return true;
	std::string p = tok.substr(c + 1);
	size_t par = p.find('(');
	if (par == std::string::npos) { if (!unhex(p, M.raw)) return false; M.m.pParameter = M.raw.empty() ? (CK_VOID_PTR)"" : M.raw.data(); M.m.ulParameterLen = M.raw.size(); return true; }
	std::string kind = p.substr(0, par); std::vector<std::string> a = splitArgs(p.substr(par + 1, p.size() - par - 2));
	auto U = [&](size_t i) { return i < a.size() ? strtoul(a[i].c_str(), NULL, 0) : 0UL; };
	if (kind == "gcm") { unhex(a.size() > 0 ? a[0] : ".", M.b1); unhex(a.size() > 1 ? a[1] : ".", M.b2); memset(&M.gcm, 0, sizeof(M.gcm));
		M.gcm.pIv = M.b1.empty() ? (CK_BYTE_PTR)"" : M.b1.data(); M.gcm.ulIvLen = M.b1.size(); M.gcm.ulIvBits = M.b1.size() * 8;
		M.gcm.pAAD = M.b2.empty() ? NULL_PTR : M.b2.data(); M.gcm.ulAADLen = M.b2.size(); M.gcm.ulTagBits = U(2);
		M.m.pParameter = &M.gcm; M.m.ulParameterLen = sizeof(M.gcm); }
	else if (kind == "ctr") { memset(&M.ctr, 0, sizeof(M.ctr)); M.ctr.ulCounterBits = U(0); unhex(a.size() > 1 ? a[1] : ".", M.b1); M.b1.resize(16, 0); memcpy(M.ctr.cb, M.b1.data(), 16);
		M.m.pParameter = &M.ctr; M.m.ulParameterLen = sizeof(M.ctr); }
	else if (kind == "oaep") { memset(&M.oaep, 0, sizeof(M.oaep)); M.oaep.hashAlg = strtoul(a[0].c_str(), NULL, 16); M.oaep.mgf = U(1); M.oaep.source = CKZ_DATA_SPECIFIED;
		unhex(a.size() > 2 ? a[2] : ".", M.b1); M.oaep.pSourceData = M.b1.empty() ? NULL_PTR : M.b1.data(); M.oaep.ulSourceDataLen = M.b1.size();
		M.m.pParameter = &M.oaep; M.m.ulParameterLen = sizeof(M.oaep); }
	else if (kind == "pss") { memset(&M.pss, 0, sizeof(M.pss)); M.pss.hashAlg = strtoul(a[0].c_str(), NULL, 16); M.pss.mgf = U(1); M.pss.sLen = U(2);
		M.m.pParameter = &M.pss; M.m.ulParameterLen = sizeof(M.pss); }
	else if (kind == "ecdh") { memset(&M.ecdh, 0, sizeof(M.ecdh)); M.ecdh.kdf = U(0); unhex(a.size() > 1 ? a[1] : ".", M.b1); M.ecdh.pPublicData = M.b1.empty() ? NULL_PTR : M.b1.data(); M.ecdh.ulPublicDataLen = M.b1.size();
		M.m.pParameter = &M.ecdh; M.m.ulParameterLen = sizeof(M.ecdh); }
	else if (kind == "str") { unhex(a.size() > 0 ? a[0] : ".", M.b1); M.str.pData = M.b1.empty() ? (CK_BYTE_PTR)"" : M.b1.data(); M.str.ulLen = M.b1.size(); M.m.pParameter = &M.str; M.m.ulParameterLen = sizeof(M.str); }
	else if (kind == "cbcd") { unhex(a.size() > 0 ? a[0] : ".", M.b1); unhex(a.size() > 1 ? a[1] : ".", M.b2);
		if (M.b1.size() == 16) { memcpy(M.cbca.iv, M.b1.data(), 16); M.cbca.pData = M.b2.empty() ? (CK_BYTE_PTR)"" : M.b2.data(); M.cbca.length = M.b2.size(); M.m.pParameter = &M.cbca; M.m.ulParameterLen = sizeof(M.cbca); }
		else { M.b1.resize(8, 0); memcpy(M.cbcd.iv, M.b1.data(), 8); M.cbcd.pData = M.b2.empty() ? (CK_BYTE_PTR)"" : M.b2.data(); M.cbcd.length = M.b2.size(); M.m.pParameter = &M.cbcd; M.m.ulParameterLen = sizeof(M.cbcd); } }
	else if (kind == "obj") { M.obj = handleArg(a.size() ? a[0] : "0"); M.m.pParameter = &M.obj; M.m.ulParameterLen = sizeof(M.obj); }
	else return false;
	return true;
}
// output buffer argument: n (NULL pointer) | <size>
struct OutBuf { bool null; CK_ULONG cap; Bytes b; CK_ULONG len; static const size_t GUARD = 64;
	OutBuf(const std::string& s) { null = (s == "n"); cap = null ? 0 : strtoul(s.c_str(), NULL, 0); b.assign(cap + GUARD, 0xA5); len = cap; }
	CK_BYTE_PTR ptr() { return null ? NULL_PTR : b.data(); }
	std::string report(CK_RV rv) {   // " <len> <data|-> [!OVERRUN]"
		std::ostringstream os; os << " " << (unsigned long)len;
		bool overrun = false; if (!null) for (size_t k = cap; k < cap + GUARD; k++) if (b[k] != 0xA5) overrun = true;
		size_t wrote = 0; if (!null) for (size_t k = 0; k < cap; k++) if (b[k] != 0xA5) wrote = k + 1;
		if (!null && rv == CKR_OK && len <= cap) os << " " << hex(b.data(), len);
		else if (wrote) os << " W" << hex(b.data(), wrote);
		else os << " -";
		if (overrun) os << " !OVERRUN";
		return os.str(); }
};
static Bytes dataArg(const std::string& s, bool* isNull) { Bytes b; *isNull = (s == "-"); if (!*isNull) unhex(s, b); return b; }

static std::string labelOf(CK_SESSION_HANDLE hs, CK_OBJECT_HANDLE ho, CK_RV* prv) {
	unsigned char buf[512]; CK_ATTRIBUTE a = { CKA_LABEL, buf, sizeof(buf) };
	CK_RV rv = C_GetAttributeValue(hs, ho, &a, 1);
	*prv = rv;
	if (rv != CKR_OK) return "?";
	return hex(buf, a.ulValueLen);
}

// ---- C18: threads under a deterministic scheduler ------------------------------------------------------------------------------------
// Real pthreads, but exactly one runs at any time (a baton).  The baton changes hands only at the mutex callbacks the library calls
// (CreateMutex/DestroyMutex/LockMutex/UnlockMutex supplied through CK_C_INITIALIZE_ARGS) and between calls, as the seeded schedule says:
// at a callback inside a call the running thread may be PRE-EMPTED (bounded budget) and stays suspended until the others have completed a
// few calls; a thread that asks for a held mutex blocks until the holder releases it; no runnable thread = DEADLOCK.
#include <pthread.h>
struct SMutex { int owner; };
struct SThread { pthread_t th; int id; std::vector<std::pair<long, std::string> > script; bool finished; SMutex* blockedOn; long resumeAt; long yields; };
static std::vector<SThread> gThr; static int gCur = -1; static pthread_mutex_t gBig = PTHREAD_MUTEX_INITIALIZER; static pthread_cond_t gCv = PTHREAD_COND_INITIALIZER;
static bool gSched = false; static unsigned gRng = 1; static int gBudget = 0; static int gPreemptPct = 0; static long gCallsDone = 0;
static thread_local int tMe = -1;
static thread_local std::string tNotes;   // labels of the handles the last C_FindObjects of this thread returned
struct SForce { int t; long n; long w; };
static std::vector<SForce> gForce;   // explicit pre-emptions: thread t at its n-th callback, resumed after the others completed w calls
static bool gThreaded = false;       // p11drv -t
static bool gFifo = false;           // at call boundaries the lowest-numbered runnable thread goes on (systematic one-pre-emption enumeration)
static unsigned srnd() { gRng = gRng * 1103515245u + 12345u; return (gRng >> 16) & 0x7fff; }
static void switchTo(int other) {
	pthread_mutex_lock(&gBig); gCur = other; pthread_cond_broadcast(&gCv);
	while (gCur != tMe) pthread_cond_wait(&gCv, &gBig);
	pthread_mutex_unlock(&gBig);
}
static bool canRun(const SThread& t) { return !t.finished && (t.blockedOn == NULL || t.blockedOn->owner == -1); }
static void deadlock(const char* where) {
	printf("DEADLOCK %s thread=%d\n", where, tMe); for (auto& t : gThr) printf("  thread %d finished=%d blocked=%d\n", t.id, t.finished, t.blockedOn != NULL); fflush(stdout); _exit(73);
}
// who runs next at a call boundary (or when the running thread cannot go on): suspended threads whose time has come first, then the others at random
static int pickNext(bool includeMe) {
	std::vector<int> due, normal, early;
	for (auto& t : gThr) { if (!canRun(t) || (!includeMe && t.id == tMe)) continue;
		if (t.resumeAt >= 0 && gCallsDone >= t.resumeAt) due.push_back(t.id); else if (t.resumeAt < 0) normal.push_back(t.id); else early.push_back(t.id); }
	std::vector<int>& v = !due.empty() ? due : !normal.empty() ? normal : early;
	if (v.empty()) return -1;
	if (gFifo) return *std::min_element(v.begin(), v.end());
	return v[srnd() % v.size()];
}
static void yieldPoint() {
	if (!gSched || tMe < 0) return;
	SThread& me = gThr[tMe]; me.yields++;
	bool forced = false; long fw = 1; for (auto& f : gForce) if (f.t == tMe && f.n == me.yields) { forced = true; fw = f.w; }
	if (forced || (gBudget > 0 && (int)(srnd() % 100) < gPreemptPct)) {
		int o = pickNext(false);
		if (o >= 0) { if (!forced) gBudget--; me.resumeAt = forced ? gCallsDone + fw : gCallsDone + 1 + srnd() % 3; printf("preempt %d %ld\n", tMe, me.yields); switchTo(o); me.resumeAt = -1; }
	}
}
// `initix`: application mutex callbacks whose handles are NOT pointers (index + 1 into a table of the application) - the library may only hand them back to these callbacks.
// Single-threaded use: locking a mutex that is locked is a self-deadlock of the library and is counted instead of waited for; so is every call with a handle the
// application never issued or has destroyed.  `nop mxstat` prints the counters.
static std::vector<int> ixState;   // 0 destroyed, 1 alive, 2 locked
static long ixCreated = 0, ixDestroyed = 0, ixBad = 0, ixRelock = 0;
static bool ixOk(CK_VOID_PTR p) { uintptr_t i = (uintptr_t)p; return i >= 1 && i <= ixState.size() && ixState[i - 1] != 0; }
static CK_RV ixCreateMutex(CK_VOID_PTR_PTR pp) { ixState.push_back(1); ixCreated++; *pp = (CK_VOID_PTR)(uintptr_t)ixState.size(); return CKR_OK; }
static CK_RV ixDestroyMutex(CK_VOID_PTR p) { if (!ixOk(p)) { ixBad++; return CKR_MUTEX_BAD; } ixState[(uintptr_t)p - 1] = 0; ixDestroyed++; return CKR_OK; }
static CK_RV ixLockMutex(CK_VOID_PTR p) {
	if (!ixOk(p)) { ixBad++; return CKR_MUTEX_BAD; }
	if (ixState[(uintptr_t)p - 1] == 2) { ixRelock++; return CKR_OK; }
	ixState[(uintptr_t)p - 1] = 2; return CKR_OK;
}
static CK_RV ixUnlockMutex(CK_VOID_PTR p) { if (!ixOk(p)) { ixBad++; return CKR_MUTEX_BAD; } ixState[(uintptr_t)p - 1] = 1; return CKR_OK; }
static CK_RV schedCreateMutex(CK_VOID_PTR_PTR pp) { SMutex* m = new SMutex; m->owner = -1; *pp = m; return CKR_OK; }
static CK_RV schedDestroyMutex(CK_VOID_PTR p) { delete (SMutex*)p; return CKR_OK; }
static CK_RV schedLockMutex(CK_VOID_PTR p) {
	SMutex* m = (SMutex*)p;
	if (!gSched || tMe < 0) { m->owner = -2; return CKR_OK; }
	yieldPoint();
	while (m->owner != -1) {
		gThr[tMe].blockedOn = m;
		int o = pickNext(false);
		if (o < 0) deadlock("LockMutex");
		switchTo(o);
	}
	gThr[tMe].blockedOn = NULL; m->owner = tMe; return CKR_OK;
}
static CK_RV schedUnlockMutex(CK_VOID_PTR p) { SMutex* m = (SMutex*)p; m->owner = -1; yieldPoint(); return CKR_OK; }

// ---- the operations --------------------------------------------------------------------------------
static void run(const std::vector<std::string>& t) {
	const std::string& op = t[0];
	std::vector<CK_ULONG>& res = results[opNo];
	auto H = [&](size_t i) { return i < t.size() ? handleArg(t[i]) : 0UL; };
	auto N = [&](size_t i) { return i < t.size() ? strtoul(t[i].c_str(), NULL, 0) : 0UL; };

	if (op == "nop" && t.size() > 1 && t[1] == "mxstat") { fprintf(out, "= 0 %ld %ld %ld %ld\n", ixCreated, ixDestroyed, ixBad, ixRelock); }
	else if (op == "nop" || op == "cfgmechs") { fprintf(out, "= 0\n"); }
	else if (op == "wipe" || op == "snapshot" || op == "restore") {
		// token-directory management between C_Finalize and C_Initialize (many short traces in one process)
		const char* td = getenv("VERIF_TOKENDIR");
		if (!td) { fprintf(out, "= BADOP\n"); return; }
		namespace fs = std::filesystem;
		std::string d(td); std::error_code ec; int rc = 0;
		if (op == "wipe") { fs::remove_all(d, ec); fs::create_directories(d, ec); }
		else if (op == "snapshot") { fs::remove_all(d + ".snap." + t[1], ec); fs::copy(d, d + ".snap." + t[1], fs::copy_options::recursive, ec); }
		else { fs::remove_all(d, ec); fs::copy(d + ".snap." + t[1], d, fs::copy_options::recursive, ec); }
		if (ec) rc = 1;
		fprintf(out, "= %d\n", rc);
	}
	else if (op == "reexec") {
		// a NEW PROCESS continues the trace on the same token directory: this one is replaced (no C_Finalize unless the trace called it).
		// The handle-reference table and the position in the op file are carried over in a state file.
		const char* td = getenv("VERIF_TOKENDIR");
		if (!td || gOpsFile.empty()) { fprintf(out, "= BADOP\n"); return; }
		std::string sf = std::string(td) + ".reexec";
		{ std::ofstream o(sf.c_str());
		  o << (long long)gPos << " " << opNo << " " << results.size() << "\n";
		  for (auto& kv : results) { o << kv.first << " " << kv.second.size(); for (CK_ULONG v : kv.second) o << " " << v; o << "\n"; } }
		fprintf(out, "= 0\n"); fflush(out);
		execl(gSelf.c_str(), gSelf.c_str(), gOpsFile.c_str(), "--resume", sf.c_str(), (char*)NULL);
		fprintf(out, "= EXECFAILED\n"); exit(3);
	}
	else if (op == "dumpdir") {
		// every file and directory under the token directory: `D:<relpath>:<mode>` / `F:<relpath>:<mode>:<hex content>`, sorted by path
		const char* td = getenv("VERIF_TOKENDIR");
		if (!td) { fprintf(out, "= BADOP\n"); return; }
		namespace fs = std::filesystem; std::error_code ec;
		std::vector<std::string> rows;
		for (auto it = fs::recursive_directory_iterator(td, ec); !ec && it != fs::recursive_directory_iterator(); it.increment(ec)) {
			std::string rel = fs::relative(it->path(), td, ec).string();
			struct stat st; if (::stat(it->path().c_str(), &st) != 0) continue;
			char mode[16]; snprintf(mode, sizeof mode, "%o", (unsigned)(st.st_mode & 07777));
			if (S_ISDIR(st.st_mode)) rows.push_back("D:" + rel + ":" + mode);
			else {
				std::ifstream f(it->path().c_str(), std::ios::binary); std::vector<unsigned char> c((std::istreambuf_iterator<char>(f)), std::istreambuf_iterator<char>());
				rows.push_back("F:" + rel + ":" + mode + ":" + (c.empty() ? std::string(".") : hex(c.data(), c.size())));
			}
		}
		std::sort(rows.begin(), rows.end());
		fprintf(out, "= 0 %zu", rows.size());
		for (auto& r : rows) fprintf(out, " %s", r.c_str());
		fprintf(out, "\n");
	}
	else if (op == "fsmut") {
		// fsmut <kind> <relpath> [args]: damage one file of the token directory (between calls; models what a crash or a foreign writer leaves)
		//   truncate <n> | flip <offset> <xormask hex> | poke <offset> <hex> (overwrite in place) | write <hex> | append <hex> | remove | chmod <octal>
		const char* td = getenv("VERIF_TOKENDIR");
		if (!td || t.size() < 3) { fprintf(out, "= BADOP\n"); return; }
		// path: literal, or symbolic `T<i>[/O<j>|/<name>]`: i-th token directory / j-th object file, in sorted order (directory names are random)
		std::string path = std::string(td) + "/" + t[2]; int rc = 0;
		if (t[2][0] == 'T' && isdigit((unsigned char)t[2][1])) {
			namespace fs = std::filesystem; std::error_code ec; std::vector<std::string> dirs;
			for (auto& e : fs::directory_iterator(td, ec)) if (e.is_directory()) dirs.push_back(e.path().string());
			std::sort(dirs.begin(), dirs.end());
			size_t slash = t[2].find('/'); size_t i = strtoul(t[2].c_str() + 1, NULL, 10);
			if (i >= dirs.size()) { fprintf(out, "= 1\n"); return; }
			path = dirs[i];
			if (slash != std::string::npos) {
				std::string rest = t[2].substr(slash + 1);
				if (rest[0] == 'O' && rest.size() > 1 && isdigit((unsigned char)rest[1])) {
					std::vector<std::string> objs;
					for (auto& e : fs::directory_iterator(path, ec)) { std::string n = e.path().filename().string(); if (n != "token.object" && n.size() > 7 && n.substr(n.size() - 7) == ".object") objs.push_back(e.path().string()); }
					std::sort(objs.begin(), objs.end());
					size_t j = strtoul(rest.c_str() + 1, NULL, 10);
					if (j >= objs.size()) { fprintf(out, "= 1\n"); return; }
					path = objs[j];
				} else path += "/" + rest;
			}
		}
		const std::string& k = t[1];
		if (k == "truncate") rc = ::truncate(path.c_str(), (off_t)N(3));
		else if (k == "remove") rc = ::remove(path.c_str());
		else if (k == "chmod") rc = ::chmod(path.c_str(), (mode_t)strtoul(t[3].c_str(), NULL, 8));
		else if (k == "flip") { FILE* f = fopen(path.c_str(), "r+b"); if (!f) rc = -1; else { fseek(f, (long)N(3), SEEK_SET); int c = fgetc(f); if (c == EOF) rc = -1; else { fseek(f, (long)N(3), SEEK_SET); fputc(c ^ (int)strtoul(t[4].c_str(), NULL, 16), f); } fclose(f); } }
		else if (k == "poke") { Bytes b; unhex(t[4], b); FILE* f = fopen(path.c_str(), "r+b"); if (!f) rc = -1; else { fseek(f, 0, SEEK_END); long sz = ftell(f); long off = (long)N(3); if (off > sz) rc = -1; else { fseek(f, off, SEEK_SET); if (!b.empty()) fwrite(b.data(), 1, b.size(), f); } fclose(f); } }
		else if (k == "grow" || k == "shrink" || k == "retype" || k == "rekind" || k == "dup" || k == "drop") {
			// structured damage: the file stays a well-formed attribute sequence, one attribute is changed.  selector t<typehex> | i<index>
			//   grow <sel> <n> / shrink <sel> <n> (byte strings: length field and data together) | retype <sel> <newtypehex> | rekind <sel> <kind> <payloadhex> | dup <sel> | drop <sel>
			std::ifstream f(path.c_str(), std::ios::binary); Bytes c((std::istreambuf_iterator<char>(f)), std::istreambuf_iterator<char>()); f.close();
			struct A { unsigned long ty, kind; Bytes pay; }; std::vector<A> as; size_t pos = 8; bool okp = c.size() >= 8;
			auto rd8 = [&](size_t at, unsigned long& v) { if (at + 8 > c.size()) return false; v = 0; for (int i = 0; i < 8; i++) v = (v << 8) | c[at + i]; return true; };
			auto be8 = [](unsigned long v) { Bytes b(8); for (int i = 7; i >= 0; i--) { b[i] = v & 0xff; v >>= 8; } return b; };
			while (okp && pos < c.size()) {
				A a; unsigned long n = 0;
				if (!rd8(pos, a.ty) || !rd8(pos + 8, a.kind)) { okp = false; break; }
				pos += 16; size_t plen = 0;
				if (a.kind == 1) plen = 1; else if (a.kind == 2) plen = 8;
				else if (a.kind == 3 || a.kind == 4) { if (!rd8(pos, n)) { okp = false; break; } plen = 8 + n; }
				else if (a.kind == 5) { if (!rd8(pos, n)) { okp = false; break; } plen = 8 + 8 * n; }
				else { okp = false; break; }
				if (pos + plen > c.size()) { okp = false; break; }
				a.pay.assign(c.begin() + pos, c.begin() + pos + plen); pos += plen; as.push_back(a);
			}
			long idx = -1;
			if (okp && t.size() > 3) {
				if (t[3][0] == 'i') idx = atol(t[3].c_str() + 1);
				else { unsigned long ty = strtoul(t[3].c_str() + 1, NULL, 16); for (size_t i = 0; i < as.size(); i++) if (as[i].ty == ty) { idx = (long)i; break; } }
			}
			if (!okp || idx < 0 || (size_t)idx >= as.size()) rc = -1;
			else {
				A& a = as[idx];
				if (k == "grow" && a.kind == 3) { size_t n = N(4); a.pay.insert(a.pay.end(), n, 'A'); Bytes l = be8(a.pay.size() - 8); std::copy(l.begin(), l.end(), a.pay.begin()); }
				else if (k == "shrink" && a.kind == 3) { size_t n = std::min((size_t)N(4), a.pay.size() - 8); a.pay.resize(a.pay.size() - n); Bytes l = be8(a.pay.size() - 8); std::copy(l.begin(), l.end(), a.pay.begin()); }
				else if (k == "retype") a.ty = strtoul(t[4].c_str(), NULL, 16);
				else if (k == "rekind") { a.kind = N(4); a.pay.clear(); if (t.size() > 5 && t[5] != ".") unhex(t[5], a.pay); }
				else if (k == "dup") { A b = a; as.insert(as.begin() + idx, b); }
				else if (k == "drop") as.erase(as.begin() + idx);
				else rc = -1;
				if (rc == 0) {
					Bytes o(c.begin(), c.begin() + 8);
					for (auto& x : as) { Bytes b1 = be8(x.ty), b2 = be8(x.kind); o.insert(o.end(), b1.begin(), b1.end()); o.insert(o.end(), b2.begin(), b2.end()); o.insert(o.end(), x.pay.begin(), x.pay.end()); }
					FILE* w = fopen(path.c_str(), "wb"); if (!w) rc = -1; else { if (!o.empty()) fwrite(o.data(), 1, o.size(), w); fclose(w); }
				}
			}
		}
		else if (k == "write" || k == "append") { Bytes b; if (t[3] != ".") unhex(t[3], b); FILE* f = fopen(path.c_str(), k == "write" ? "wb" : "ab"); if (!f) rc = -1; else { if (!b.empty()) fwrite(b.data(), 1, b.size(), f); fclose(f); } }
		else { fprintf(out, "= BADOP\n"); return; }
		fprintf(out, "= %d\n", rc == 0 ? 0 : 1);
	}
	else if (op == "conf") {
		// conf <hex>: replace the configuration file ($SOFTHSM2_CONF) by these bytes; the text @TOKENDIR@ in them stands for the token directory (C17: any configuration content)
		const char* cf = getenv("SOFTHSM2_CONF"); const char* td = getenv("VERIF_TOKENDIR");
		if (!cf || !td || t.size() < 2) { fprintf(out, "= BADOP\n"); return; }
		Bytes b; if (t[1] != ".") unhex(t[1], b);
		std::string c(b.begin(), b.end()); const std::string ph = "@TOKENDIR@";
		for (size_t pos = 0; (pos = c.find(ph, pos)) != std::string::npos; pos += strlen(td)) c.replace(pos, ph.size(), td);
		FILE* f = fopen(cf, "wb"); int rc = f ? 0 : 1; if (f) { if (!c.empty()) fwrite(c.data(), 1, c.size(), f); fclose(f); }
		fprintf(out, "= %d\n", rc);
	}
	else if (op == "init") { fprintf(out, "= %lu\n", C_Initialize(NULL_PTR)); maxHandleSeen = 0; }
	else if (op == "initmx" || op == "initos" || op == "initix") {
		// C18: locking enabled, with the application's mutex callbacks (the scheduler's yield points) or with OS locking
		CK_C_INITIALIZE_ARGS a; memset(&a, 0, sizeof a);
		if (op == "initmx") { a.CreateMutex = schedCreateMutex; a.DestroyMutex = schedDestroyMutex; a.LockMutex = schedLockMutex; a.UnlockMutex = schedUnlockMutex; }
		else if (op == "initix") { a.CreateMutex = ixCreateMutex; a.DestroyMutex = ixDestroyMutex; a.LockMutex = ixLockMutex; a.UnlockMutex = ixUnlockMutex; }
		else a.flags = CKF_OS_LOCKING_OK;
		fprintf(out, "= %lu\n", C_Initialize(&a)); maxHandleSeen = 0;
	}
	else if (op == "fini") { fprintf(out, "= %lu\n", C_Finalize(NULL_PTR)); }
	else if (op == "slots") {
		CK_RV rv; std::vector<SlotRow> rows = listSlots(false, &rv);
		fprintf(out, "= %lu %zu", rv, rows.size());
		for (size_t i = 0; i < rows.size(); i++)
			fprintf(out, " %lu %d %lu %s %s", rows[i].id, rows[i].init ? 1 : 0, rows[i].flags, rows[i].init ? rows[i].label.c_str() : "-", rows[i].init ? rows[i].serial.c_str() : "-");
		fprintf(out, "\n");
	}
	else if (op == "inittoken") {
		CK_SLOT_ID slot = slotArg(t[1]); OptBytes pin = optBytes(t[2]); Bytes label; unhex(t[3], label);
		label.resize(32, ' ');
		CK_RV rv = C_InitToken(slot, pin.null ? NULL_PTR : (pin.b.empty() ? (CK_UTF8CHAR_PTR)"" : pin.b.data()), pin.b.size(), label.data());
		std::string serial = "-";
		if (rv == CKR_OK) { CK_TOKEN_INFO ti; if (C_GetTokenInfo(slot, &ti) == CKR_OK) serial = hex(ti.serialNumber, 16); }
		fprintf(out, "= %lu %lu %s\n", rv, slot, serial.c_str());
	}
	else if (op == "open") {
		CK_SLOT_ID slot = slotArg(t[1]); CK_SESSION_HANDLE h = 0;
		CK_RV rv = C_OpenSession(slot, N(2), NULL_PTR, NULL_PTR, &h);
		if (rv == CKR_OK) { res.push_back(h); note(h); }
		fprintf(out, "= %lu %lu %lu\n", rv, slot, rv == CKR_OK ? h : 0UL);
	}
	else if (op == "close") { CK_ULONG h = H(1); fprintf(out, "= %lu %lu\n", C_CloseSession(h), h); }
	else if (op == "closeall") { CK_SLOT_ID s = slotArg(t[1]); fprintf(out, "= %lu %lu\n", C_CloseAllSessions(s), s); }
	else if (op == "sinfo") {
		CK_ULONG h = H(1); CK_SESSION_INFO si; memset(&si, 0, sizeof(si));
		CK_RV rv = C_GetSessionInfo(h, &si);
		if (rv == CKR_OK) fprintf(out, "= %lu %lu %lu %lu %lu\n", rv, h, si.slotID, si.state, si.flags);
		else fprintf(out, "= %lu %lu\n", rv, h);
	}
	else if (op == "login") {
		CK_ULONG h = H(1); OptBytes pin = optBytes(t[3]);
		CK_RV rv = C_Login(h, N(2), pin.null ? NULL_PTR : (pin.b.empty() ? (CK_UTF8CHAR_PTR)"" : pin.b.data()), pin.b.size());
		fprintf(out, "= %lu %lu\n", rv, h);
	}
	else if (op == "logout") { CK_ULONG h = H(1); fprintf(out, "= %lu %lu\n", C_Logout(h), h); }
	else if (op == "initpin") {
		CK_ULONG h = H(1); OptBytes pin = optBytes(t[2]);
		CK_RV rv = C_InitPIN(h, pin.null ? NULL_PTR : (pin.b.empty() ? (CK_UTF8CHAR_PTR)"" : pin.b.data()), pin.b.size());
		fprintf(out, "= %lu %lu\n", rv, h);
	}
	else if (op == "setpin") {
		CK_ULONG h = H(1); OptBytes o = optBytes(t[2]), n = optBytes(t[3]);
		CK_RV rv = C_SetPIN(h, o.null ? NULL_PTR : (o.b.empty() ? (CK_UTF8CHAR_PTR)"" : o.b.data()), o.b.size(),
		                       n.null ? NULL_PTR : (n.b.empty() ? (CK_UTF8CHAR_PTR)"" : n.b.data()), n.b.size());
		fprintf(out, "= %lu %lu\n", rv, h);
	}
	else if (op == "create") {
		CK_ULONG h = H(1); Tpl tp; if (!parseTplTokens(t, 2, tp)) { fprintf(out, "= BADOP\n"); return; }
		CK_OBJECT_HANDLE ho = 0;
		CK_RV rv = C_CreateObject(h, tp.a.data(), tp.a.size(), &ho);
		if (rv == CKR_OK) { res.push_back(ho); note(ho); }
		fprintf(out, "= %lu %lu %lu\n", rv, h, rv == CKR_OK ? ho : 0UL);
	}
	else if (op == "copy") {
		CK_ULONG h = H(1), o = H(2); Tpl tp; if (!parseTplTokens(t, 3, tp)) { fprintf(out, "= BADOP\n"); return; }
		CK_OBJECT_HANDLE ho = 0;
		CK_ATTRIBUTE dummyA; CK_RV rv = C_CopyObject(h, o, tp.a.empty() ? &dummyA : tp.a.data(), tp.a.size(), &ho);
		if (rv == CKR_OK) { res.push_back(ho); note(ho); }
		fprintf(out, "= %lu %lu %lu %lu\n", rv, h, o, rv == CKR_OK ? ho : 0UL);
	}
	else if (op == "destroy") { CK_ULONG h = H(1), o = H(2); fprintf(out, "= %lu %lu %lu\n", C_DestroyObject(h, o), h, o); }
	else if (op == "probe") {
		CK_ULONG h = H(1), o = H(2); CK_ULONG cls = 0; CK_ATTRIBUTE a = { CKA_CLASS, &cls, sizeof(cls) };
		fprintf(out, "= %lu %lu %lu\n", C_GetAttributeValue(h, o, &a, 1), h, o);
	}
	else if (op == "objsize") {
		CK_ULONG h = H(1), o = H(2); CK_ULONG sz = 0; CK_RV rv = C_GetObjectSize(h, o, &sz);
		fprintf(out, "= %lu %lu %lu %lu\n", rv, h, o, rv == CKR_OK ? sz : 0UL);
	}
	else if (op == "setattr") {
		CK_ULONG h = H(1), o = H(2); Tpl tp; if (!parseTplTokens(t, 3, tp)) { fprintf(out, "= BADOP\n"); return; }
		CK_ATTRIBUTE dummyA; fprintf(out, "= %lu %lu %lu\n", C_SetAttributeValue(h, o, tp.a.empty() ? &dummyA : tp.a.data(), tp.a.size()), h, o);
	}
	else if (op == "getattr") {
		// getattr h o type:cap ...   cap = n (NULL pointer) | <bytes of buffer>
		// The call is made twice with different fill patterns (it has no side effects): a buffer byte that differs
		// between the two runs was not written by the library.
		CK_ULONG h = H(1), o = H(2);
		size_t n = t.size() - 3;
		const size_t GUARD = 32;
		std::vector<CK_ATTRIBUTE> a1(n), a2(n); std::vector<Bytes> b1(n), b2(n); std::vector<long> caps(n);
		for (size_t i = 0; i < n; i++) {
			size_t c = t[3+i].find(':');
			a1[i].type = a2[i].type = strtoul(t[3+i].substr(0, c).c_str(), NULL, 16);
			std::string cap = t[3+i].substr(c+1);
			if (cap == "n") { caps[i] = -1; a1[i].pValue = a2[i].pValue = NULL_PTR; a1[i].ulValueLen = a2[i].ulValueLen = 0; }
			else {
				caps[i] = atol(cap.c_str());
				b1[i].assign(caps[i] + GUARD, 0xA5); b2[i].assign(caps[i] + GUARD, 0x5A);
				a1[i].pValue = b1[i].data(); a2[i].pValue = b2[i].data(); a1[i].ulValueLen = a2[i].ulValueLen = caps[i];
			}
		}
		CK_ATTRIBUTE dummyA;
		CK_RV rv = C_GetAttributeValue(h, o, n ? a1.data() : &dummyA, n);
		CK_RV rv2 = C_GetAttributeValue(h, o, n ? a2.data() : &dummyA, n);
		fprintf(out, "= %lu %lu %lu", rv, h, o);
		if (rv2 != rv) fprintf(out, " !UNSTABLE");
		bool detail = (rv == CKR_OK || rv == CKR_ATTRIBUTE_SENSITIVE || rv == CKR_ATTRIBUTE_TYPE_INVALID || rv == CKR_BUFFER_TOO_SMALL);
		for (size_t i = 0; i < n; i++) {
			long len = (a1[i].ulValueLen == (CK_ULONG)-1) ? -1 : (long)a1[i].ulValueLen;
			size_t wrote = 0; bool overrun = false;
			if (caps[i] >= 0) {
				size_t cap = caps[i];
				for (size_t k = 0; k < cap + GUARD; k++) if (b1[i][k] == b2[i][k]) { if (k < cap) wrote = k + 1; else overrun = true; }
			}
			if (detail) {
				std::string data = wrote ? hex(b1[i].data(), wrote) : "-";
				fprintf(out, " %lx:%ld:%s%s", a1[i].type, len, data.c_str(), overrun ? "!OVERRUN" : "");
			} else if (wrote || overrun || (caps[i] >= 0 ? len != caps[i] : len != 0)) fprintf(out, " !WROTE");
		}
		fprintf(out, "\n");
	}
	else if (op == "findinit") {
		CK_ULONG h = H(1); Tpl tp; if (!parseTplTokens(t, 2, tp)) { fprintf(out, "= BADOP\n"); return; }
		CK_ULONG before = maxHandleSeen;
		CK_RV rv = C_FindObjectsInit(h, tp.a.empty() ? NULL_PTR : tp.a.data(), tp.a.size());
		fprintf(out, "= %lu %lu", rv, h);
		if (rv == CKR_OK && !gSched) {
			// handles minted by this call: probe the values after the largest one seen so far (not with threads: other threads mint handles meanwhile;
			// there the labels of the handles FOUND are logged by `find` and the coordinator works out which of them are new)
			for (CK_ULONG v = before + 1; v < before + 4096; v++) {
				CK_RV r2; std::string l = labelOf(h, v, &r2);
				if (r2 == CKR_OBJECT_HANDLE_INVALID || r2 == CKR_SESSION_HANDLE_INVALID) break;
				fprintf(out, " %lu:%s", v, l.c_str()); note(v);
			}
		}
		fprintf(out, "\n");
	}
	else if (op == "find") {
		CK_ULONG h = H(1); CK_ULONG max = N(2); std::vector<CK_OBJECT_HANDLE> buf(max + 8, 0xDEADBEEF); CK_ULONG cnt = 0;
		CK_RV rv = C_FindObjects(h, buf.data(), max, &cnt);
		fprintf(out, "= %lu %lu %lu", rv, h, rv == CKR_OK ? cnt : 0UL);
		if (rv == CKR_OK) for (CK_ULONG i = 0; i < cnt && i < max + 8; i++) { fprintf(out, " %lu", buf[i]); res.push_back(buf[i]); note(buf[i]); }
		for (CK_ULONG i = max; i < max + 8; i++) if (buf[i] != 0xDEADBEEF) fprintf(out, " !OVERRUN");
		fprintf(out, "\n");
		if (gThreaded && rv == CKR_OK) { tNotes.clear(); for (CK_ULONG i = 0; i < cnt && i < max; i++) { CK_RV r2; std::string l = labelOf(h, buf[i], &r2); char b[64]; snprintf(b, sizeof b, " %lu:", buf[i]); tNotes += b + l; } }
	}
	else if (op == "findfinal") { CK_ULONG h = H(1); fprintf(out, "= %lu %lu\n", C_FindObjectsFinal(h), h); }
	else if (op == "mechlist") {
		CK_SLOT_ID sl = slotArg(t[1]); CK_ULONG n = 0; CK_RV rv = C_GetMechanismList(sl, NULL_PTR, &n);
		// the buffer has EXACTLY the announced number of entries (heap-allocated: one entry too many written is a sanitizer report)
		CK_MECHANISM_TYPE* v = (CK_MECHANISM_TYPE*) malloc(n ? n * sizeof(CK_MECHANISM_TYPE) : 1); CK_ULONG n2 = n; if (rv == CKR_OK) rv = C_GetMechanismList(sl, v, &n2);
		fprintf(out, "= %lu %lu %lu", rv, sl, rv == CKR_OK ? n2 : 0UL); if (rv == CKR_OK) for (CK_ULONG i = 0; i < n2 && i < n; i++) fprintf(out, " %lx", v[i]); fprintf(out, "\n");
		free(v);
	}
	else if (op == "mechinfo") {
		CK_SLOT_ID sl = slotArg(t[1]); CK_MECHANISM_INFO mi; memset(&mi, 0, sizeof(mi)); CK_RV rv = C_GetMechanismInfo(sl, strtoul(t[2].c_str(), NULL, 16), &mi);
		if (rv == CKR_OK) fprintf(out, "= %lu %lu %lu %lu %lx\n", rv, sl, mi.ulMinKeySize, mi.ulMaxKeySize, mi.flags); else fprintf(out, "= %lu %lu\n", rv, sl);
	}
	else if (op == "genkey") {      // genkey h mech tpl...
		CK_ULONG h = H(1); Mech M; Tpl tp; if (!parseMech(t[2], M) || !parseTplTokens(t, 3, tp)) { fprintf(out, "= BADOP\n"); return; }
		CK_OBJECT_HANDLE hk = 0; CK_ATTRIBUTE dummyA; CK_RV rv = C_GenerateKey(h, &M.m, tp.a.empty() ? &dummyA : tp.a.data(), tp.a.size(), &hk);
		if (rv == CKR_OK) { res.push_back(hk); note(hk); }
		fprintf(out, "= %lu %lu %lu\n", rv, h, rv == CKR_OK ? hk : 0UL);
	}
	else if (op == "genpair") {     // genpair h mech pubtpl... / privtpl...
		CK_ULONG h = H(1); Mech M; Tpl tp1, tp2; if (!parseMech(t[2], M)) { fprintf(out, "= BADOP\n"); return; }
		size_t i = 3; for (; i < t.size() && t[i] != "/"; i++) if (!parseEntry(t[i], tp1)) { fprintf(out, "= BADOP\n"); return; }
		for (i++; i < t.size(); i++) if (!parseEntry(t[i], tp2)) { fprintf(out, "= BADOP\n"); return; }
		CK_OBJECT_HANDLE h1 = 0, h2 = 0; CK_ATTRIBUTE dummyA;
		CK_RV rv = C_GenerateKeyPair(h, &M.m, tp1.a.empty() ? &dummyA : tp1.a.data(), tp1.a.size(), tp2.a.empty() ? &dummyA : tp2.a.data(), tp2.a.size(), &h1, &h2);
		if (rv == CKR_OK) { res.push_back(h1); res.push_back(h2); note(h1); note(h2); }
		fprintf(out, "= %lu %lu %lu %lu\n", rv, h, rv == CKR_OK ? h1 : 0UL, rv == CKR_OK ? h2 : 0UL);
	}
	else if (op == "encinit" || op == "decinit" || op == "siginit" || op == "verinit") {   // xinit h mech key
		CK_ULONG h = H(1), k = H(3); Mech M; if (!parseMech(t[2], M)) { fprintf(out, "= BADOP\n"); return; }
		CK_RV rv = op == "encinit" ? C_EncryptInit(h, &M.m, k) : op == "decinit" ? C_DecryptInit(h, &M.m, k) : op == "siginit" ? C_SignInit(h, &M.m, k) : C_VerifyInit(h, &M.m, k);
		fprintf(out, "= %lu %lu %lu\n", rv, h, k);
	}
	else if (op == "diginit") { CK_ULONG h = H(1); Mech M; if (!parseMech(t[2], M)) { fprintf(out, "= BADOP\n"); return; } fprintf(out, "= %lu %lu\n", C_DigestInit(h, &M.m), h); }
	else if (op == "enc" || op == "dec" || op == "sign" || op == "digest" || op == "encupd" || op == "decupd") {   // op h data outbuf
		CK_ULONG h = H(1); bool dn; Bytes d = dataArg(t[2], &dn); OutBuf ob(t[3]);
		CK_BYTE_PTR dp = dn ? NULL_PTR : (d.empty() ? (CK_BYTE_PTR)"" : d.data());
		CK_RV rv = op == "enc" ? C_Encrypt(h, dp, d.size(), ob.ptr(), &ob.len) : op == "dec" ? C_Decrypt(h, dp, d.size(), ob.ptr(), &ob.len)
			: op == "sign" ? C_Sign(h, dp, d.size(), ob.ptr(), &ob.len) : op == "digest" ? C_Digest(h, dp, d.size(), ob.ptr(), &ob.len)
			: op == "encupd" ? C_EncryptUpdate(h, dp, d.size(), ob.ptr(), &ob.len) : C_DecryptUpdate(h, dp, d.size(), ob.ptr(), &ob.len);
		if (rv == CKR_OK && !ob.null && ob.len <= ob.cap) outs[opNo] = Bytes(ob.b.begin(), ob.b.begin() + ob.len);
		fprintf(out, "= %lu %lu%s\n", rv, h, ob.report(rv).c_str());
	}
	else if (op == "encfinal" || op == "decfinal" || op == "sigfinal" || op == "digfinal") {   // op h outbuf
		CK_ULONG h = H(1); OutBuf ob(t[2]);
		CK_RV rv = op == "encfinal" ? C_EncryptFinal(h, ob.ptr(), &ob.len) : op == "decfinal" ? C_DecryptFinal(h, ob.ptr(), &ob.len)
			: op == "sigfinal" ? C_SignFinal(h, ob.ptr(), &ob.len) : C_DigestFinal(h, ob.ptr(), &ob.len);
		if (rv == CKR_OK && !ob.null && ob.len <= ob.cap) outs[opNo] = Bytes(ob.b.begin(), ob.b.begin() + ob.len);
		fprintf(out, "= %lu %lu%s\n", rv, h, ob.report(rv).c_str());
	}
	else if (op == "sigupd" || op == "verupd" || op == "digupd") {   // op h data
		CK_ULONG h = H(1); bool dn; Bytes d = dataArg(t[2], &dn); CK_BYTE_PTR dp = dn ? NULL_PTR : (d.empty() ? (CK_BYTE_PTR)"" : d.data());
		CK_RV rv = op == "sigupd" ? C_SignUpdate(h, dp, d.size()) : op == "verupd" ? C_VerifyUpdate(h, dp, d.size()) : C_DigestUpdate(h, dp, d.size());
		fprintf(out, "= %lu %lu\n", rv, h);
	}
	else if (op == "digkey") { CK_ULONG h = H(1), k = H(2); fprintf(out, "= %lu %lu %lu\n", C_DigestKey(h, k), h, k); }
	else if (op == "verify") {   // verify h data sig
		CK_ULONG h = H(1); bool dn, sn; Bytes d = dataArg(t[2], &dn), sg = dataArg(t[3], &sn);
		CK_RV rv = C_Verify(h, dn ? NULL_PTR : (d.empty() ? (CK_BYTE_PTR)"" : d.data()), d.size(), sn ? NULL_PTR : (sg.empty() ? (CK_BYTE_PTR)"" : sg.data()), sg.size());
		fprintf(out, "= %lu %lu\n", rv, h);
	}
	else if (op == "verfinal") { CK_ULONG h = H(1); bool sn; Bytes sg = dataArg(t[2], &sn);
		fprintf(out, "= %lu %lu\n", C_VerifyFinal(h, sn ? NULL_PTR : (sg.empty() ? (CK_BYTE_PTR)"" : sg.data()), sg.size()), h); }
	else if (op == "wrap") {     // wrap h mech wrappingKey key outbuf
		CK_ULONG h = H(1), wk = H(3), k = H(4); Mech M; if (!parseMech(t[2], M)) { fprintf(out, "= BADOP\n"); return; } OutBuf ob(t[5]);
		CK_RV rv = C_WrapKey(h, &M.m, wk, k, ob.ptr(), &ob.len);
		if (rv == CKR_OK && !ob.null && ob.len <= ob.cap) blobs[opNo] = Bytes(ob.b.begin(), ob.b.begin() + ob.len);
		fprintf(out, "= %lu %lu %lu %lu%s\n", rv, h, wk, k, ob.report(rv).c_str());
	}
	else if (op == "unwrap") {   // unwrap h mech unwrappingKey wrappedhex tpl...
		CK_ULONG h = H(1), uk = H(3); Mech M; Tpl tp; bool dn = false; Bytes d;
		if (t[4].rfind("blob:@", 0) == 0) {
			// the output of an earlier wrap call, optionally damaged: blob:@k[,trunc=N][,drop=N][,flip=I][,append=HEX]
			std::vector<std::string> a = splitArgs(t[4].substr(6)); d = blobs[atol(a[0].c_str())];
			for (size_t i = 1; i < a.size(); i++) {
				size_t eq = a[i].find('='); std::string k2 = a[i].substr(0, eq), v2 = eq == std::string::npos ? "" : a[i].substr(eq + 1);
				if (k2 == "trunc") d.resize(std::min(d.size(), (size_t)atol(v2.c_str())));
				else if (k2 == "drop" && d.size() >= (size_t)atol(v2.c_str())) d.resize(d.size() - atol(v2.c_str()));
				else if (k2 == "flip" && !d.empty()) d[atol(v2.c_str()) % d.size()] ^= 0x01;
				else if (k2 == "append") { Bytes x; unhex(v2, x); d.insert(d.end(), x.begin(), x.end()); }
			}
		} else d = dataArg(t[4], &dn);
		if (!parseMech(t[2], M) || !parseTplTokens(t, 5, tp)) { fprintf(out, "= BADOP\n"); return; }
		CK_OBJECT_HANDLE hk = 0; CK_ATTRIBUTE dummyA;
		CK_RV rv = C_UnwrapKey(h, &M.m, uk, dn ? NULL_PTR : (d.empty() ? (CK_BYTE_PTR)"" : d.data()), d.size(), tp.a.empty() ? &dummyA : tp.a.data(), tp.a.size(), &hk);
		if (rv == CKR_OK) { res.push_back(hk); note(hk); }
		fprintf(out, "= %lu %lu %lu %lu %s\n", rv, h, uk, rv == CKR_OK ? hk : 0UL, dn ? "-" : (d.empty() ? "." : hex(d).c_str()));
	}
	else if (op == "derive") {   // derive h mech baseKey tpl...
		CK_ULONG h = H(1), bk = H(3); Mech M; Tpl tp; if (!parseMech(t[2], M) || !parseTplTokens(t, 4, tp)) { fprintf(out, "= BADOP\n"); return; }
		CK_OBJECT_HANDLE hk = 0; CK_ATTRIBUTE dummyA;
		CK_RV rv = C_DeriveKey(h, &M.m, bk, tp.a.empty() ? &dummyA : tp.a.data(), tp.a.size(), &hk);
		if (rv == CKR_OK) { res.push_back(hk); note(hk); }
		// the second key of CKM_CONCATENATE_BASE_AND_KEY is named by reference in the op line: echo its handle value
		if (M.m.mechanism == CKM_CONCATENATE_BASE_AND_KEY) fprintf(out, "= %lu %lu %lu %lu %lu\n", rv, h, bk, rv == CKR_OK ? hk : 0UL, (unsigned long)M.obj);
		else fprintf(out, "= %lu %lu %lu %lu\n", rv, h, bk, rv == CKR_OK ? hk : 0UL);
	}
	else if (op == "decrelay" || op == "verrelay") {
		// feed the token's own earlier outputs back (C10): the op expands into real calls whose lines are printed in the usual format
		//   decrelay h o1,o2,… flip|same single|multi seed       verrelay h datahex sigop flip|same single|multi seed
		static bool nested = false; if (nested) { fprintf(out, "= BADOP\n"); return; }
		CK_ULONG h = H(1); bool isDec = op == "decrelay"; Bytes data, sig; unsigned seed = (unsigned)N(isDec ? 5 : 6);
		bool doFlip = t[isDec ? 3 : 4] == "flip", multi = t[isDec ? 4 : 5] == "multi";
		if (isDec) { for (auto& e : splitArgs(t[2])) { Bytes& b = outs[atol(e.c_str())]; data.insert(data.end(), b.begin(), b.end()); } if (doFlip && !data.empty()) data[seed % data.size()] ^= (unsigned char)(1 << (seed / 7 % 8)); }
		else { if (t[2] != ".") unhex(t[2], data); sig = outs[atol(t[3].c_str())]; if (doFlip && !sig.empty()) sig[seed % sig.size()] ^= (unsigned char)(1 << (seed / 7 % 8)); }
		fprintf(out, "= 0\n");      // result of the relay line itself
		std::vector<std::string> lines; char hb[32]; snprintf(hb, sizeof hb, "%lu", h);
		auto hexOrDot = [&](const Bytes& b, size_t a, size_t e) { return a >= e ? std::string(".") : hex(b.data() + a, e - a); };
		if (!multi) lines.push_back(isDec ? std::string("dec ") + hb + " " + hexOrDot(data, 0, data.size()) + " 700" : std::string("verify ") + hb + " " + hexOrDot(data, 0, data.size()) + " " + hexOrDot(sig, 0, sig.size()));
		else {
			size_t pos = 0; unsigned x = seed * 2654435761u + 12345u;
			for (int i = 0; i < 3; i++) { x = x * 1103515245u + 12345u; size_t n = data.size() - pos ? (x >> 8) % (data.size() - pos + 1) : 0; lines.push_back(std::string(isDec ? "decupd " : "verupd ") + hb + " " + hexOrDot(data, pos, pos + n) + (isDec ? " 700" : "")); pos += n; }
			lines.push_back(std::string(isDec ? "decupd " : "verupd ") + hb + " " + hexOrDot(data, pos, data.size()) + (isDec ? " 700" : ""));
			lines.push_back(isDec ? std::string("decfinal ") + hb + " 700" : std::string("verfinal ") + hb + " " + hexOrDot(sig, 0, sig.size()));
		}
		nested = true;
		for (auto& l : lines) { std::vector<std::string> tt; { std::stringstream ss(l); std::string w; while (ss >> w) tt.push_back(w); } fprintf(out, "%s\n", l.c_str()); fflush(out); run(tt); fflush(out); }
		nested = false;
		return;
	}
	else if (op == "kcv") {     // kcv h obj : key type, value and check value of a secret key, read through the API (C13: the check value is the standard one)
		CK_ULONG h = H(1), o = H(2); CK_ULONG kt = (CK_ULONG)-1; unsigned char val[8192], cv[64];
		CK_ATTRIBUTE a1[] = { { CKA_KEY_TYPE, &kt, sizeof(kt) } }; CK_RV rv = C_GetAttributeValue(h, o, a1, 1);
		CK_ATTRIBUTE a2[] = { { CKA_VALUE, val, sizeof(val) } }; CK_RV rv2 = rv == CKR_OK ? C_GetAttributeValue(h, o, a2, 1) : rv;
		CK_ATTRIBUTE a3[] = { { CKA_CHECK_VALUE, cv, sizeof(cv) } }; CK_RV rv3 = rv == CKR_OK ? C_GetAttributeValue(h, o, a3, 1) : rv;
		fprintf(out, "= %lu %lu %lu %lx %s %s\n", rv, h, o, kt,
			(rv2 == CKR_OK && a2[0].ulValueLen != (CK_ULONG)-1) ? (a2[0].ulValueLen ? hex(val, a2[0].ulValueLen).c_str() : ".") : "-",
			(rv3 == CKR_OK && a3[0].ulValueLen != (CK_ULONG)-1) ? (a3[0].ulValueLen ? hex(cv, a3[0].ulValueLen).c_str() : ".") : "-");
	}
	else if (op == "misc") {
		// misc h slot key datahex: the entry points no other op reaches (C17: all 68), each with valid buffers; prints the return codes in a fixed order
		CK_ULONG h = H(1); CK_SLOT_ID sl = slotArg(t.size() > 2 ? t[2] : "0"); CK_ULONG k = t.size() > 3 ? handleArg(t[3]) : 0; bool dn = false; Bytes d = t.size() > 4 ? dataArg(t[4], &dn) : Bytes();
		CK_BYTE_PTR dp = d.empty() ? (CK_BYTE_PTR)"" : d.data(); Bytes o1(4096 + 64, 0xA5); CK_ULONG ol; std::vector<CK_RV> rvs;
		CK_INFO inf; memset(&inf, 0, sizeof inf); rvs.push_back(C_GetInfo(&inf));
		CK_FUNCTION_LIST_PTR fl = NULL; rvs.push_back(C_GetFunctionList(&fl));
		CK_SLOT_INFO si; memset(&si, 0, sizeof si); rvs.push_back(C_GetSlotInfo(sl, &si));
		CK_TOKEN_INFO ti; memset(&ti, 0, sizeof ti); rvs.push_back(C_GetTokenInfo(sl, &ti));
		CK_SLOT_ID ev = 0; rvs.push_back(C_WaitForSlotEvent(CKF_DONT_BLOCK, &ev, NULL_PTR));
		ol = 4096; rvs.push_back(C_GetOperationState(h, o1.data(), &ol));
		rvs.push_back(C_SetOperationState(h, dp, d.size(), k, k));
		CK_MECHANISM m = { CKM_RSA_PKCS, NULL_PTR, 0 };
		rvs.push_back(C_SignRecoverInit(h, &m, k)); ol = 4096; rvs.push_back(C_SignRecover(h, dp, d.size(), o1.data(), &ol));
		rvs.push_back(C_VerifyRecoverInit(h, &m, k)); ol = 4096; rvs.push_back(C_VerifyRecover(h, dp, d.size(), o1.data(), &ol));
		ol = 4096; rvs.push_back(C_DigestEncryptUpdate(h, dp, d.size(), o1.data(), &ol));
		ol = 4096; rvs.push_back(C_DecryptDigestUpdate(h, dp, d.size(), o1.data(), &ol));
		ol = 4096; rvs.push_back(C_SignEncryptUpdate(h, dp, d.size(), o1.data(), &ol));
		ol = 4096; rvs.push_back(C_DecryptVerifyUpdate(h, dp, d.size(), o1.data(), &ol));
		rvs.push_back(C_GetFunctionStatus(h)); rvs.push_back(C_CancelFunction(h));
		rvs.push_back(C_GetSessionInfo(h, NULL_PTR)); rvs.push_back(C_GetMechanismInfo(sl, (CK_MECHANISM_TYPE)k, NULL_PTR));
		CK_ULONG n = 0; rvs.push_back(C_GetSlotList(CK_TRUE, NULL_PTR, &n)); rvs.push_back(C_GetMechanismList(sl, NULL_PTR, &n));
		bool overrun = false; for (size_t i = 4096; i < o1.size(); i++) if (o1[i] != 0xA5) overrun = true;
		fprintf(out, "= 0 %lu", h); for (CK_RV r : rvs) fprintf(out, " %lu", r); if (overrun) fprintf(out, " !OVERRUN"); fprintf(out, "\n");
	}
	else if (op == "random") { CK_ULONG h = H(1); CK_ULONG n = N(2); Bytes b(n + 8, 0xA5); CK_RV rv = C_GenerateRandom(h, b.data(), n); fprintf(out, "= %lu %lu %lu\n", rv, h, n); }
	else if (op == "seed") { CK_ULONG h = H(1); bool dn; Bytes d = dataArg(t[2], &dn); fprintf(out, "= %lu %lu\n", C_SeedRandom(h, d.empty() ? (CK_BYTE_PTR)"" : d.data(), d.size()), h); }
	else fprintf(out, "= BADOP\n");
}

static void onSignal(int sig) {
	char buf[64]; int n = snprintf(buf, sizeof(buf), "= CRASH signal %d\n", sig);
	if (write(fileno(out), buf, n)) {}
	_exit(70);
}

static std::vector<std::string> gLines; size_t gPos = 0;
static bool gIsolate = false;
static void runLine(const std::string& line) {
	std::vector<std::string> t; { std::stringstream ss(line); std::string w; while (ss >> w) t.push_back(w); }
	if (t.empty()) return;
	fprintf(out, "%s\n", line.c_str()); fflush(out);
	run(t);
	fflush(out);
}
static bool isOp(const std::string& line) { return !(line.empty() || line[0] == '#'); }

int main(int argc, char** argv) {
	std::istream* in = &std::cin; static std::ifstream f;
	if (argc > 1 && strcmp(argv[1], "-") != 0 && strcmp(argv[1], "-i") != 0 && strcmp(argv[1], "-t") != 0) { f.open(argv[1]); if (!f) { fprintf(stderr, "cannot open %s\n", argv[1]); return 2; } in = &f; gOpsFile = argv[1]; }
	{ char buf[4096]; ssize_t n = readlink("/proc/self/exe", buf, sizeof buf - 1); if (n > 0) { buf[n] = 0; gSelf = buf; } }
	// under a sanitizer its own handlers stay in place for SEGV/BUS/FPE, so that the report carries the stack; the process then ends non-zero after an op line without result
	if (!getenv("VERIF_SANITIZER_SIGNALS")) { signal(SIGSEGV, onSignal); signal(SIGBUS, onSignal); signal(SIGFPE, onSignal); }
	signal(SIGABRT, onSignal); signal(SIGILL, onSignal);
	setvbuf(out, NULL, _IOLBF, 0);
	gIsolate = getenv("VERIF_ISOLATE") != NULL;
	if (argc > 2 && strcmp(argv[1], "-t") == 0) {
		// threaded mode: p11drv -t <opsfile> [seed [budget [preemptPct [force t:n,t:n…]]]]; lines `M <op>` (main thread: before the first / after the last
		// T line) and `T<i> <op>`; @k references count ALL op lines of the file.  Event log: `call <thread> <line> <op>` / `ret <thread> <line> <result>`.
		std::ifstream tf(argv[2]); if (!tf) { fprintf(stderr, "cannot open %s\n", argv[2]); return 2; }
		gRng = argc > 3 ? (unsigned)strtoul(argv[3], NULL, 0) * 2654435761u + 1u : 1u; gBudget = argc > 4 ? atoi(argv[4]) : 2; gPreemptPct = argc > 5 ? atoi(argv[5]) : 5;
		if (gPreemptPct < 0) { gFifo = true; gPreemptPct = 0; }
		if (argc > 6) for (auto& e : splitArgs(argv[6])) { SForce f; f.t = 0; f.n = 0; f.w = 1; if (sscanf(e.c_str(), "%d:%ld:%ld", &f.t, &f.n, &f.w) >= 2) gForce.push_back(f); }
		std::vector<std::pair<long, std::string> > pro, epi; std::string line; long n = 0; bool seenT = false;
		while (std::getline(tf, line)) {
			if (!isOp(line)) continue; n++;
			size_t sp = line.find(' '); std::string tag = line.substr(0, sp), rest = sp == std::string::npos ? "" : line.substr(sp + 1);
			if (tag == "M") (seenT ? epi : pro).push_back(std::make_pair(n, rest));
			else if (tag[0] == 'T') { seenT = true; size_t i = strtoul(tag.c_str() + 1, NULL, 10); while (gThr.size() <= i) { SThread t; t.id = (int)gThr.size(); t.finished = false; t.blockedOn = NULL; t.resumeAt = -1; t.yields = 0; gThr.push_back(t); } gThr[i].script.push_back(std::make_pair(n, rest)); }
		}
		auto runMain = [&](std::vector<std::pair<long, std::string> >& v) {
			for (auto& e : v) { opNo = e.first; std::vector<std::string> t; { std::stringstream ss(e.second); std::string w; while (ss >> w) t.push_back(w); }
				char* mb = NULL; size_t ml = 0; FILE* ms = open_memstream(&mb, &ml); out = ms; run(t); fflush(ms); fclose(ms); out = stdout;
				std::string r(mb ? mb : ""); free(mb); while (!r.empty() && r.back() == '\n') r.pop_back();
				printf("call -1 %ld %s\n", e.first, e.second.c_str()); if (!tNotes.empty()) { printf("labels%s\n", tNotes.c_str()); tNotes.clear(); }
				printf("ret -1 %ld %s\n", e.first, r.c_str()); fflush(stdout); } };
		gThreaded = true;
		runMain(pro);
		gSched = true;
		auto body = [](void* arg) -> void* {
			SThread* me = (SThread*)arg; tMe = me->id;
			pthread_mutex_lock(&gBig); while (gCur != tMe) pthread_cond_wait(&gCv, &gBig); pthread_mutex_unlock(&gBig);
			for (auto& e : me->script) {
				int nx = pickNext(true); if (nx >= 0 && nx != tMe) switchTo(nx);
				opNo = e.first; std::vector<std::string> t; { std::stringstream ss(e.second); std::string w; while (ss >> w) t.push_back(w); }
				printf("call %d %ld %s\n", tMe, e.first, e.second.c_str()); fflush(stdout);
				char* mb = NULL; size_t ml = 0; FILE* ms = open_memstream(&mb, &ml); out = ms; run(t); fflush(ms); fclose(ms); out = stdout;
				std::string r(mb ? mb : ""); free(mb); while (!r.empty() && r.back() == '\n') r.pop_back();
				for (auto& ch : r) if (ch == '\n') ch = '|';
				if (!tNotes.empty()) { printf("labels%s\n", tNotes.c_str()); tNotes.clear(); }
				printf("ret %d %ld %s\n", tMe, e.first, r.c_str()); fflush(stdout); gCallsDone++;
			}
			me->finished = true;
			int nx = pickNext(false);
			if (nx < 0) { bool all = true; for (auto& t : gThr) if (!t.finished) all = false; if (!all) deadlock("thread end"); nx = -2; }
			pthread_mutex_lock(&gBig); gCur = nx; pthread_cond_broadcast(&gCv); pthread_mutex_unlock(&gBig);
			return NULL;
		};
		for (auto& t : gThr) pthread_create(&t.th, NULL, body, &t);
		if (!gThr.empty()) { pthread_mutex_lock(&gBig); gCur = gFifo ? 0 : (int)(srnd() % gThr.size()); pthread_cond_broadcast(&gCv); while (gCur != -2) pthread_cond_wait(&gCv, &gBig); pthread_mutex_unlock(&gBig); }
		for (auto& t : gThr) pthread_join(t.th, NULL);
		gSched = false; tMe = -1;
		for (auto& t : gThr) printf("yields %d %ld\n", t.id, t.yields);
		runMain(epi);
		return 0;
	}
	if (argc > 1 && strcmp(argv[1], "-i") == 0) {
		// interactive: one op per line from stdin, answered before the next line is read (C15 / C18: a coordinator interleaves several such processes)
		std::string line;
		long lastCount = 0; bool armNext = false;
		while (std::getline(std::cin, line)) {
			if (!isOp(line)) continue;
			if (line.rfind("pauseat ", 0) == 0) {      // pauseat k: the NEXT op counts its file operations and waits at the k-th (k = 0: only count)
				fsPauseAt = atol(line.c_str() + 8); armNext = true; printf("%s\n= 0\n", line.c_str()); fflush(stdout); continue; }
			if (line == "fscount") { printf("fscount\n= %ld\n", lastCount); fflush(stdout); continue; }
			opNo++;
			if (armNext) { fsCount = 0; fsLogLen = 0; fsLog[0] = 0; fsArmed = 1; }
			runLine(line);
			if (armNext) { fsArmed = 0; lastCount = fsCount; fsPauseAt = 0; armNext = false; }
		}
		return 0;
	}
	{ std::string line; while (std::getline(*in, line)) gLines.push_back(line); }
	if (argc > 3 && strcmp(argv[2], "--resume") == 0) {
		std::ifstream sf(argv[3]); long long pos = 0; size_t n = 0; sf >> pos >> opNo >> n;
		for (size_t i = 0; i < n; i++) { long k; size_t m; sf >> k >> m; std::vector<CK_ULONG>& v = results[k]; for (size_t j = 0; j < m; j++) { CK_ULONG x; sf >> x; v.push_back(x); } }
		gPos = (size_t)pos;
	}
	while (gPos < gLines.size()) {
		std::string line = gLines[gPos++];
		if (line.rfind("#trace", 0) == 0) { fprintf(out, "%s\n", line.c_str()); fflush(out); opNo = 0; results.clear(); continue; }
		if (!isOp(line)) continue;
		opNo++;
		std::vector<std::string> t; { std::stringstream ss(line); std::string w; while (ss >> w) t.push_back(w); }
		if (t.empty()) continue;
		if (t[0] == "forkrun" && t.size() >= 2) {
			// forkrun dry | crash <k> | fail <k>: the NEXT op runs in a forked child (with the file-system schedule armed); the child ends without
			// C_Finalize; this process skips that op and keeps its own library state (the caller restores the directory before going on)
			fprintf(out, "%s\n= 0\n", line.c_str()); fflush(out);
			while (gPos < gLines.size() && !isOp(gLines[gPos])) gPos++;
			std::string next = gPos < gLines.size() ? gLines[gPos++] : std::string("nop");
			opNo++;
			pid_t pid = fork();
			if (pid == 0) {
				fsCount = 0; fsLogLen = 0; fsLog[0] = 0; fsCrashAt = fsFailAt = 0;
				if (t[1] == "crash" && t.size() > 2) fsCrashAt = atol(t[2].c_str());
				if (t[1] == "fail" && t.size() > 2) fsFailAt = atol(t[2].c_str());
				fsArmed = 1;
				runLine(next);
				fsArmed = 0;
				fprintf(out, "fsops\n= %ld %s\n", (long)fsCount, fsLogLen ? fsLog : "-"); fflush(out);
				_exit(0);
			}
			int st = 0; waitpid(pid, &st, 0);
			fprintf(out, "forkdone\n= %d\n", WIFEXITED(st) ? WEXITSTATUS(st) : 1000 + WTERMSIG(st)); fflush(out);
			continue;
		}
		if (t[0] == "recover" && t.size() >= 2) {
			// a FRESH process (exec) runs the given op file on the same token directory; its transcript goes to the same output
			fprintf(out, "%s\n= 0\n", line.c_str()); fflush(out);
			pid_t pid = fork();
			// the alarm survives exec: a recovery process that hangs (e.g. on a mutex of its own) is ended by SIGALRM and reported with status 1014
			if (pid == 0) { alarm(120); execl(gSelf.c_str(), gSelf.c_str(), t[1].c_str(), (char*)NULL); _exit(3); }
			int st = 0; waitpid(pid, &st, 0);
			fprintf(out, "recoverdone\n= %d\n", WIFEXITED(st) ? WEXITSTATUS(st) : 1000 + WTERMSIG(st)); fflush(out);
			continue;
		}
		fprintf(out, "%s\n", line.c_str()); fflush(out);
		if (gIsolate && t[0] != "init" && t[0] != "fini" && t[0] != "reexec") {
			// C17 isolation: the op is first tried in a forked copy of this process (output discarded).  When the copy dies, the op is answered
			// "= CRASHED <status>" and NOT run here, so that one history can expose every crashing call it contains instead of only the first.
			fflush(stderr);
			pid_t pid = fork();
			if (pid == 0) { FILE* dn = fopen("/dev/null", "w"); if (dn) out = dn; run(t); fflush(out); _exit(0); }
			int st = 0; waitpid(pid, &st, 0);
			int code = WIFEXITED(st) ? WEXITSTATUS(st) : 1000 + WTERMSIG(st);
			if (code != 0) { fprintf(out, "= CRASHED %d\n", code); fflush(out); fprintf(stderr, "\n@@CRASHED op=%ld code=%d\n", opNo, code); fflush(stderr); continue; }
		}
		run(t);
		fflush(out);
	}
	return 0;
}
