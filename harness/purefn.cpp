// purefn — unit-level correspondence: calls the library's PURE helper functions (compiled from /repo's working tree, taken out of
// libsofthsm2-static.a) on the inputs of a line file and prints their results, one line per input.  The Lean driver
// (`shm-driver --pure`) evaluates the model definitions of the same functions (lean/Shm/Pure/*.lean) on the same lines; the check diffs
// the two streams.  The theorems about these functions (round trips, bounds) are stated on exactly the definitions that are diffed here.
//
// line format:  <fn> <arg>...      byte strings in hex ("." = empty), numbers decimal.   Output: "= <words>"
#include <cstdio>
#include <cstring>
#include <cstdlib>
#include <string>
#include <vector>
#include <map>
#include <set>
#include <list>
#include <memory>
#include <sstream>
#include <fstream>
#include <iostream>
#include <unistd.h>
#include <sys/stat.h>
#define protected public
#define private public
#include "config.h"
#include "cryptoki.h"
#include "ByteString.h"
#include "DerUtil.h"
#include "Configuration.h"
#include "SimpleConfigLoader.h"
#include "RFC4880.h"
#include "AESKey.h"
#include "odd.h"
#include "SoftHSM.h"
#undef protected
#undef private

// `mxseq`: application mutex callbacks that only count
static long mxLive = 0;
static CK_RV cntCreate(CK_VOID_PTR_PTR pp) { *pp = malloc(8); mxLive++; return CKR_OK; }
static CK_RV cntDestroy(CK_VOID_PTR p) { free(p); mxLive--; return CKR_OK; }
static CK_RV cntLock(CK_VOID_PTR) { return CKR_OK; }
static CK_RV cntUnlock(CK_VOID_PTR) { return CKR_OK; }

static std::string hexs(const ByteString& b) {
	if (b.size() == 0) return ".";
	static const char* d = "0123456789abcdef"; std::string s;
	for (size_t i = 0; i < b.size(); i++) { unsigned char c = b.const_byte_str()[i]; s.push_back(d[c >> 4]); s.push_back(d[c & 15]); }
	return s;
}
static ByteString unhex(const std::string& s) {
	ByteString b;
	if (s == ".") return b;
	for (size_t i = 0; i + 1 < s.size(); i += 2) b += (unsigned char) strtoul(s.substr(i, 2).c_str(), NULL, 16);
	return b;
}
static std::string strhex(const std::string& s) { return hexs(ByteString((const unsigned char*) s.data(), s.size())); }

int main(int argc, char** argv) {
	if (argc < 2) { fprintf(stderr, "usage: purefn <lines> [scratchdir]\n"); return 2; }
	std::string scratch = argc > 2 ? argv[2] : ".";
	std::ifstream in(argv[1]);
	std::string line;
	SoftHSM* hsm = SoftHSM::i();
	while (std::getline(in, line)) {
		if (line.empty() || line[0] == '#') continue;
		std::istringstream ss(line); std::vector<std::string> w; std::string t;
		while (ss >> t) w.push_back(t);
		const std::string& fn = w[0];
		printf("%s\n", line.c_str()); fflush(stdout);
		std::string out;
		if (fn == "r2o" && w.size() == 2) out = hexs(DERUTIL::raw2Octet(unhex(w[1])));
		else if (fn == "o2r" && w.size() == 2) out = hexs(DERUTIL::octet2Raw(unhex(w[1])));
		else if (fn == "ecdhpub" && w.size() == 2) { ByteString b = unhex(w[1]); out = hexs(hsm->getECDHPubData(b)); }
		else if (fn == "ser" && w.size() == 2) out = hexs(unhex(w[1]).serialise());
		else if (fn == "deser" && w.size() == 2) { ByteString b = unhex(w[1]); ByteString v = ByteString::chainDeserialise(b); out = hexs(v) + " " + hexs(b); }
		else if (fn == "long" && w.size() == 2) out = std::to_string(unhex(w[1]).long_val());
		else if (fn == "oflong" && w.size() == 2) out = hexs(ByteString((unsigned long) strtoull(w[1].c_str(), NULL, 10)));
		else if (fn == "bits" && w.size() == 2) out = std::to_string(unhex(w[1]).bits());
		else if (fn == "xor" && w.size() == 3) { ByteString a = unhex(w[1]), b = unhex(w[2]); ByteString c = a ^ b; a ^= b; out = hexs(c) + " " + hexs(a); }
		else if (fn == "split" && w.size() == 3) { ByteString a = unhex(w[1]); ByteString v = a.split(strtoull(w[2].c_str(), NULL, 10)); out = hexs(v) + " " + hexs(a); }
		else if (fn == "substr" && w.size() == 4) out = hexs(unhex(w[1]).substr(strtoull(w[2].c_str(), NULL, 10), strtoull(w[3].c_str(), NULL, 10)));
		else if (fn == "hexctor" && w.size() == 2) { std::string s = unhex(w[1]).size() ? std::string((const char*) unhex(w[1]).const_byte_str(), unhex(w[1]).size()) : std::string(); out = hexs(ByteString(s.c_str())); }
		else if (fn == "pad5652" && w.size() == 3) { ByteString b = unhex(w[1]); size_t n = hsm->RFC5652Pad(b, strtoull(w[2].c_str(), NULL, 10)); out = std::to_string(n) + " " + hexs(b); }
		else if (fn == "unpad5652" && w.size() == 3) { ByteString b = unhex(w[1]); bool ok = hsm->RFC5652Unpad(b, strtoull(w[2].c_str(), NULL, 10)); out = ok ? "1 " + hexs(b) : std::string("0"); }
		else if (fn == "pad3394" && w.size() == 2) { ByteString b = unhex(w[1]); size_t n = hsm->RFC3394Pad(b); out = std::to_string(n) + " " + hexs(b); }
		else if (fn == "parity" && w.size() == 2) { ByteString b = unhex(w[1]); for (size_t i = 0; i < b.size(); i++) b[i] = odd_parity[b[i]]; out = hexs(b); }
		else if (fn == "pbe" && w.size() == 3) {
			ByteString pw = unhex(w[1]), salt = unhex(w[2]); AESKey* k = NULL;
			if (RFC4880::PBEDeriveKey(pw, salt, &k) && k != NULL) { out = "1 " + hexs(k->getKeyBits()); delete k; } else out = "0";
		}
		else if (fn == "conf" && w.size() == 2) {
			// the configuration file with exactly these bytes, loaded by the library's own loader
			std::string p = scratch + "/purefn.conf";
			ByteString content = unhex(w[1]);
			FILE* f = fopen(p.c_str(), "wb"); if (content.size()) fwrite(content.const_byte_str(), 1, content.size(), f); fclose(f);
			setenv("SOFTHSM2_CONF", p.c_str(), 1);
			bool ok = Configuration::i()->reload(SimpleConfigLoader::i());
			std::ostringstream o; o << (ok ? 1 : 0);
			const char* skeys[] = { "directories.tokendir", "objectstore.backend", "log.level", "slots.mechanisms" };
			for (const char* k : skeys) { std::string v = Configuration::i()->getString(k, "\x01unset"); o << " " << k << "=" << (v == "\x01unset" ? std::string("-") : strhex(v)); }
			int um = Configuration::i()->getInt("objectstore.umask", -12345); o << " objectstore.umask=" << (um == -12345 ? std::string("-") : std::to_string(um));
			const char* bkeys[] = { "slots.removable", "library.reset_on_fork" };
			for (const char* k : bkeys) { bool a = Configuration::i()->getBool(k, false), b = Configuration::i()->getBool(k, true); o << " " << k << "=" << (a != b ? "-" : (a ? "1" : "0")); }
			out = o.str();
		}
		else if (fn == "mxseq" && w.size() == 2) {
			// a sequence of C_Initialize calls (n: no locking, o: CKF_OS_LOCKING_OK, a: application callbacks; upper case: the same, failing because the configuration file
			// is missing) and C_Finalize (f): after every C_Initialize its return code and whether the mutex factory is switched ON
			std::string good = scratch + "/mx.conf", td = scratch + "/mx-tokens";
			mkdir(td.c_str(), 0700);
			{ FILE* f = fopen(good.c_str(), "wb"); fprintf(f, "directories.tokendir = %s\nobjectstore.backend = file\nlog.level = ERROR\n", td.c_str()); fclose(f); }
			std::ostringstream o; bool first = true; bool inited = false;
			for (char c : w[1]) {
				if (!first) o << ","; first = false;
				if (c == 'f') { CK_RV rv = C_Finalize(NULL_PTR); if (rv == CKR_OK) inited = false; o << "f" << rv; continue; }
				bool fail = (c == 'N' || c == 'O' || c == 'A'); char k = (char) tolower(c);
				setenv("SOFTHSM2_CONF", fail ? (scratch + "/no-such-file.conf").c_str() : good.c_str(), 1);
				CK_C_INITIALIZE_ARGS a; memset(&a, 0, sizeof a);
				if (k == 'o') a.flags = CKF_OS_LOCKING_OK;
				if (k == 'a') { a.CreateMutex = cntCreate; a.DestroyMutex = cntDestroy; a.LockMutex = cntLock; a.UnlockMutex = cntUnlock; }
				CK_RV rv = C_Initialize(k == 'n' ? NULL_PTR : &a);
				if (rv == CKR_OK) inited = true;
				o << rv << ":" << (MutexFactory::i()->enabled ? 1 : 0);
			}
			if (inited) C_Finalize(NULL_PTR);
			out = o.str();
		}
		else out = "?";
		printf("= %s\n", out.c_str()); fflush(stdout);
	}
	return 0;
}
